"""C14 — callbacks and extern "Python" pass values exactly and contain errors.

Specification : specs/Call.tla section 6 (the ideal: Want = what the C caller must receive;
                no exception escapes) and specs/CallCb.tla (implementation model: the result
                buffer as prepare_callback_info_tuple / general_invoke_callback /
                convert_from_object_fficallback operate on it, with the ffi_arg widening of small
                integer results).
Design level  : MC_CallCb — every result type class x {callback, extern "Python"} x body
                {raises, returns boundary / out-of-range / wrong-type value, returns a short list
                or dict initializer for a struct result} x error= x onerror
                {absent, None, value, unconvertible value, raises, short list / dict initializer
                for a struct result}: NoEscape, DeliveredOK, WidenOK; six broken variants must be
                rejected.  The three callers of the result conversion (error=, the body's value,
                onerror's value) are distinguished: onerror's value is converted into a buffer
                that holds the error= bytes, and must still arrive as "named fields set, every
                other byte zero" (error= values are non-zero in every field, model and replay).
Binding       : every configuration TLC enumerated is executed on real ffi.callback objects and
                @ffi.def_extern functions invoked by generated C callers whose argument rows
                are constants compiled into the C code; the Python functions record what they
                receive; the C caller copies what it got back into a buffer.  TLC
                (Trace_CallCb, Base 256) validates every invocation against the ideal.
"""
import json, os, re
from concurrent.futures import ThreadPoolExecutor
from harness import core, tlaval
from harness import call_gen as G
from harness import call_cb as CB
from harness import call_run as R

LEVEL = "model_checking"

CFG = """SPECIFICATION MCSpec
CONSTANTS Base = 4
  Variant = "%s"
  Cfgs <- MCCfgs
INVARIANT NoEscape
INVARIANT DeliveredOK
INVARIANT WidenOK
CHECK_DEADLOCK FALSE
"""
VARIANTS = (("widen_low_only", "WidenOK"), ("widen_zero", "WidenOK"), ("no_errcopy", "DeliveredOK"),
            ("escape", "NoEscape"), ("struct_nozero", "DeliveredOK"), ("struct_zero_body_only", "DeliveredOK"))
CLAUSE = {"escape": "a Python exception escaped into the C caller",
          "called": "the Python function was not invoked exactly once",
          "args": "the Python function did not receive exactly the argument values the C caller passed",
          "delivered": "the C caller did not receive the converted result / declared error value / onerror's value"}
RT_OF = {"p_i32": "p_i32"}


def design_level(ctx):
    with ThreadPoolExecutor(max_workers=7) as ex:
        fm = ex.submit(core.tlc, "MC_CallCb", cfg_text=CFG % "faithful", workers=4, coverage=not ctx.quick, timeout=1200)
        fv = [ex.submit(core.tlc, "MC_CallCb", cfg_text=(CFG % v).replace("MCCfgs", "SmallCfgs"), workers=1, timeout=600,
                        env=R.LIGHT_JVM) for v, _ in VARIANTS]
        r = fm.result()
        ctx.add_tlc("MC_CallCb(Base=4)", r)
        cov = r.coverage()
        for a in ("Create", "Invoke", "Body", "Error"):
            if not ctx.quick and cov.get(a, (0, 0))[1] == 0:
                raise core.MachineryError("MC_CallCb: action %s never taken" % a)
        if r.depth != 5:       # create -> ready -> body -> error -> done: all four actions were taken
            raise core.MachineryError("MC_CallCb: unexpected depth %d" % r.depth)
        for (v, inv), f in zip(VARIANTS, fv):
            rv = f.result()
            ctx.add_tlc("sanity:" + v, rv, require_ok=False, count_states=False)
            if rv.ok or inv not in rv.invariant_violated:
                raise core.MachineryError("broken variant %s of the callback model was not rejected (%s)" % (
                    v, rv.invariant_violated))
    rows = []
    for t in core.tla_tuples(r.out, "CB"):
        mode, rtn, bcls, haserr, ocls, kind = [tlaval.parse_value(x) for x in t]
        rows.append((mode, rtn, bcls, haserr, ocls, kind))
    rows = sorted(set(rows))
    if len(rows) < 1000:
        raise core.MachineryError("MC_CallCb enumerated only %d configurations" % len(rows))
    return rows


COMPLEX_SIGS = [("f64", ("f64", ("cd", "i32"))),            # the reported probe: double f(double _Complex z, int k)
                ("i32", ("i32", ("u8", "cd", "f64", "cd"))),  # not last and last
                ("i16", ("i16", ("cd",))),                    # last only
                ("u8", ("u8", ("cf", "i32", "cf"))),          # float _Complex fits a slot
                ("cd", ("cd", ("ld", "cd", "ld")))]


def make_sigs(ctx, rows, per_rt):
    """For every result type class of the model: per_rt signatures with random parameter lists, one for
    ffi.callback (libffi: no complex types) and one for extern "Python"; plus fixed complex signatures.
    Entries: (result type class, signature, modes it is used for)."""
    rng = ctx.rng
    rts = sorted(set(r[1] for r in rows))
    sigs = []
    for rtn in rts:
        if rtn in ("sA", "sB", "sE"):
            cands = [rtn] + rng.sample([s for s in CB.CB_STRUCTS if s != rtn], max(0, per_rt - 1))
        else:
            cands = [rtn] * per_rt
        for j, rt in enumerate(cands):
            for mode, pool in (("callback", CB.CB_ARG_TYPES), ("extern", CB.EP_ARG_TYPES)):
                if mode == "callback" and rt in ("cf", "cd"):
                    continue
                n = rng.choice([0, 1, 2, 3, 4, 5, 7, 8, 9])      # > 6 integer / > 8 float parameters go to the stack
                sigs.append((rtn, (rt, tuple(rng.choice(pool) for _ in range(n))), (mode,)))
    sigs += [(rtn, sig, ("extern",)) for rtn, sig in COMPLEX_SIGS]
    return sigs


def run_batch(ctx, rows, sigs, tag, nrows=4):
    rng = ctx.rng
    b = G.Builder(rng, {}, {})
    tables = [[[CB.rand_cvalue(rng, a) for a in sig[1]] for _ in range(nrows)] for _rtn, sig, _m in sigs]
    cdef, src = CB.render([s for _r, s, _m in sigs], tables)
    import cffi
    d = os.path.join(ctx.tmp, tag)
    os.makedirs(d, exist_ok=True)
    mod = "_call_cb_" + tag
    ffi = cffi.FFI()
    ffi.cdef(cdef)
    ffi.set_source(mod, src)
    cpath = os.path.join(d, mod + ".c")
    ffi.emit_c_code(cpath)
    core.build_ext_module(mod, cpath, d)
    by_rt = {}
    for row in rows:
        by_rt.setdefault(row[1], []).append(row)
    cases, meta = [], {}
    cid = 0
    for k, (rtn, sig, modes) in enumerate(sigs):
        rt = sig[0]
        for (mode, _rtn, bcls, haserr, ocls, kind) in by_rt[rtn]:
            if mode not in modes:
                continue
            cid += 1
            body = ["raise"] if bcls == "raise" else ["ret", CB.value_desc(rng, rt, bcls, b)]
            err = CB.value_desc(rng, rt, "err", b) if haserr else None
            onerr = [ocls] if ocls in ("absent", "none", "raise") else ["value", CB.value_desc(rng, rt, ocls, b)]
            case = {"id": cid, "k": k, "mode": mode, "row": rng.randint(0, nrows - 1), "body": body, "err": err,
                    "onerr": onerr, "classes": [bcls, "error=" if haserr else "noerror", ocls]}
            cases.append(case)
            meta[cid] = (sig, kind)
    plan = {"dir": d, "module": mod, "sigs": [[s[0], list(s[1])] for _r, s, _m in sigs]}
    obs, crashes = R.execute(ctx, plan, cases, ("cb",), nworkers=4, runner="harness.call_cbexec")
    records = []
    for c in cases:
        if c["id"] in obs:
            sig, kind = meta[c["id"]]
            records.append(CB.record(c, sig, tables[c["k"]][c["row"]], kind, obs[c["id"]]["cb"]))
            ctx.case((sig, c["mode"], tuple(c["classes"]), c["row"]))
    bad = R.validate(ctx, records, chunk=1200, parallel=4, name="Trace_CallCb", module="Trace_CallCb")
    return cases, meta, obs, records, bad, crashes, tables


def key_of(sig, case, clause):
    return "%s:%s:%s(%s)[%s]" % (clause, case["mode"], sig[0], ",".join(sig[1]), ",".join(case["classes"]))


def report(ctx, cases, meta, obs, records, bad, crashes, tables):
    byid = {c["id"]: c for c in cases}
    for cr in crashes:
        sig = meta[cr["case"]["id"]][0]
        ctx.violation(key_of(sig, cr["case"], "crash"), "the interpreter died with signal %d" % cr["signal"],
                      {"sig": sig, "case": cr["case"], "table_row": tables[cr["case"]["k"]][cr["case"]["row"]]})
    for cid, vs in sorted(bad.items()):
        sig, kind = meta[cid]
        c = byid[cid]
        if any(v[0] == "spec" for v in vs):
            raise core.MachineryError("specification inconsistent with itself: MC_CallCb classifies %r as %s, "
                                      "Base 256 gives %s" % (c, kind, [v for v in vs if v[0] == "spec"][0][2]))
        mode, clause, detail = vs[0]
        ctx.violation(key_of(sig, c, clause), CLAUSE.get(clause, clause),
                      {"sig": sig, "case": c, "table_row": tables[c["k"]][c["row"]], "kind": kind,
                       "observed": obs[cid]["cb"], "wanted": str(detail)[:800]})
    ctx.validated(len(records))


def run(ctx):
    rows = design_level(ctx)
    per_rt = 1 if ctx.quick else 4
    batches = 1 if ctx.quick else 2
    total = 0
    for bi in range(batches):
        sigs = make_sigs(ctx, rows, per_rt if ctx.quick else per_rt // 2)
        res = run_batch(ctx, rows, sigs, "b%d" % bi)
        report(ctx, *res)
        total += len(res[3])
        for r in res[3][:2]:
            ctx.sample({"kind": "callback invocation validated against the ideal", "mode": r["mode"],
                        "sig": res[1][r["id"]][0], "case": [c for c in res[0] if c["id"] == r["id"]][0],
                        "seen": r["seen"], "out": r["out"], "escaped": r["escaped"]}, limit=4)
    ctx.cov["configurations_enumerated"] = len(rows)
    ctx.cov["invocations"] = total
    ctx.cov["rule"] = ("distinct = distinct (signature, mode, body class, error=, onerror class, argument row); every "
                       "one is a real C -> Python -> C round trip")
    ctx.cov["exhaustive"] = True      # every configuration of the model's product is replayed, per signature
    ctx.assumptions += [
        "the C caller's constants reach the callback as gcc passes them (SysV x86-64); NaN arguments are not used",
        "an escaping exception is observable as the C caller's own API-mode wrapper raising (SystemError or the "
        "exception itself) when it returns to Python",
        "where onerror returns a value that cannot be converted the property does not say what C receives: only "
        "containment is checked"]


def replay(ctx, obj):
    rp = obj["replay"]
    sig = (rp["sig"][0], tuple(rp["sig"][1]))
    case = dict(rp["case"])
    case["k"], case["row"], case["id"] = 0, 0, 1
    cdef, src = CB.render([sig], [[rp["table_row"]]])
    import cffi
    d = os.path.join(ctx.tmp, "replay")
    os.makedirs(d, exist_ok=True)
    ffi = cffi.FFI()
    ffi.cdef(cdef)
    ffi.set_source("_call_cb_replay", src)
    ffi.emit_c_code(os.path.join(d, "_call_cb_replay.c"))
    core.build_ext_module("_call_cb_replay", os.path.join(d, "_call_cb_replay.c"), d)
    plan = {"dir": d, "module": "_call_cb_replay", "sigs": [[sig[0], list(sig[1])]]}
    obs, crashes = R.execute(ctx, plan, [case], ("cb",), nworkers=1, runner="harness.call_cbexec")
    ctx.cov["states"] = ctx.cov["transitions"] = 1
    if crashes:
        ctx.violation(obj["key"], "crash", rp)
        return
    rec = CB.record(case, sig, rp["table_row"], rp.get("kind", ""), obs[1]["cb"])
    bad = R.validate(ctx, [rec], name="Trace_CallCb", module="Trace_CallCb")
    vs = [v for v in bad.get(1, []) if v[0] != "spec"]
    for v in vs[:1]:
        ctx.violation(obj["key"], CLAUSE.get(v[1], v[1]), rp)
    print("replayed invocation: %s" % ("rejected: %s" % vs[0][1] if vs else "accepted"))


def selftest(ctx):
    rows = [("callback", "i16", "ok", True, "absent", "result"), ("extern", "i16", "raise", True, "none", "error")]
    sigs = [("i16", ("i16", ("i8", "f64")), ("callback", "extern"))]
    cases, meta, obs, records, bad, crashes, tables = run_batch(ctx, rows, sigs, "self", nrows=2)
    ok1 = not bad and len(records) == 2
    r = json.loads(json.dumps(records[0]))
    r["out"][0] ^= 1
    ok2 = any(v[1] == "delivered" for v in R.validate(ctx, [r], name="Trace_CallCb", module="Trace_CallCb").get(r["id"], []))
    r = json.loads(json.dumps(records[1]))
    r["seen"][0]["mag"] = [(r["seen"][0]["mag"] or [0])[0] ^ 2]
    ok3 = any(v[1] == "args" for v in R.validate(ctx, [r], name="Trace_CallCb", module="Trace_CallCb").get(r["id"], []))
    r = json.loads(json.dumps(records[1]))
    r["escaped"] = "SystemError"
    ok4 = any(v[1] == "escape" for v in R.validate(ctx, [r], name="Trace_CallCb", module="Trace_CallCb").get(r["id"], []))
    return ok1 and ok2 and ok3 and ok4


META = {
    "category": "model_checking",
    "text": "CallCb.tla models the result buffer of a callback invocation exactly as the C code operates on it "
            "(error bytes prepared at creation, ffi_arg widening, memcpy of the error value, onerror, zeroing of a "
            "struct result before each of the three conversions into it) and TLC checks "
            "for the full product result type x {callback, extern Python} x body x error= x onerror (both value "
            "spaces including short list/dict initializers of struct results) that it "
            "delivers what the property demands, that small integers are correctly widened and that no exception "
            "stays pending; every enumerated configuration is then executed on real callbacks invoked by generated "
            "C callers with compiled-in argument rows, and TLC validates every invocation (arguments seen, bytes "
            "received by C, containment) against the ideal at Base 256.",
    "note": "Trusted: gcc, libffi, TLC. Containment is observed through the C caller's API-mode wrapper (an "
            "exception left pending makes it raise). long double / union parameters and callbacks from foreign "
            "threads (C36) are outside. Where onerror returns an unconvertible value the delivered bytes are "
            "unconstrained.",
    "technique": "TLA+ state machine (TLC exhaustive over the case product) + replay of every configuration on real "
                 "C callers + TLC validation of recorded invocations",
    "design_ref": "DESIGN.md §3 C14",
}
