"""C07 - Python and C type-string parsers denote the same type.

Design level : specs/CDecl.tla.  The ideal is the C grammar of type names in two independent
               forms - a generative state machine (term -> renderings) and an analytic reader
               Read(toks) - and TLC checks that every rendering reads back as its term
               (ReadsBack).  The implementation models are ParseC (parse_c_type.c transcribed,
               opcode array and all) and PyPrim (cparser.py's specifier normalisation); TLC
               checks that they accept and denote what the ideal says on every rendering
               except in a few syntactic classes (ParseCAgrees, PyPrimAgrees), which is where
               the model predicts that the real parsers part.  Broken variants of the
               models are rejected by TLC (non-vacuity).
Binding      : spec -> code: every (term, rendering) pair and every near-miss TLC enumerates is
               joined with random white space and given to typeof() of the in-line FFI
               (pycparser path), an out-of-line ABI FFI and an API-mode FFI (parse_c_type.c)
               built from the same declarations.
               code -> spec: the recorded outcomes (accept/reject, the term projected from
               the real ctype, object identity) are validated by TLC against the property
               (Trace_CDecl.tla: both reject or both denote the same type), for the
               enumerated strings and for real-size cases (huge lengths, long chains).
Verdicts     : only from the property (agreement).  Disagreement with Read/ParseC that keeps
               the parsers in agreement is a NOTE (model divergence).
"""
import json, os, re
from concurrent.futures import ThreadPoolExecutor
from harness import core, tlaval
from harness import parse_env as pe

LEVEL = "model_checking"

TRACE_CFG = ("SPECIFICATION TSpec\nCONSTANTS Depth = 0\n MaxVar = 0\n NmVar = 0\n NmDepth = 0\n"
             " Profile = \"small\"\n Variant = \"faithful\"\nCHECK_DEADLOCK FALSE\n")

NONE_T = {"k": "none"}

WHAT = {
    "py-accepts-c-rejects": "the in-line FFI (Python parser) accepts the string, the compiled FFI (C parser) rejects it",
    "c-accepts-py-rejects": "the compiled FFI (C parser) accepts the string, the in-line FFI (Python parser) rejects it",
    "type-mismatch": "both parsers accept the string but denote different types",
    "not-identical": "both parsers denote the same non-aggregate type but not the identical ctype object",
}


def typeof_all(env, item):
    """worker: item = (id, string) -> (id, {mode: ['ok', term] | ['err', cls, msg]}, {mode: same object as inline})"""
    i, s = item
    outs, objs = {}, {}
    for m in env.modes:
        o = pe.outcome(env.ffi(m), s)
        if o[0] == "ok":
            objs[m] = o[1]
            outs[m] = ["ok", pe.project(o[1])]
        else:
            outs[m] = ["err", o[1], o[2]]
    same = {m: (m in objs and "inline" in objs and objs[m] is objs["inline"]) for m in env.modes}
    return (i, outs, same)


FNS = {"typeof_all": typeof_all}


def records_for(cases, results, diag=False):
    """one Trace_CDecl record per (case, compiled mode)"""
    recs, meta = [], []
    for (cid, toks, s, info), (rid, outs, same) in zip(cases, results):
        assert cid == rid
        py = outs["inline"]
        for m in outs:
            if m == "inline":
                continue
            c = outs[m]
            recs.append({"id": len(recs) + 1, "toks": list(toks),
                         "py": {"r": py[0], "t": py[1] if py[0] == "ok" else NONE_T},
                         "c": {"r": c[0], "t": c[1] if c[0] == "ok" else NONE_T},
                         "same": bool(same[m]), "diag": bool(diag)})
            meta.append({"string": s, "toks": list(toks), "mode": m, "inline": py, "compiled": c, "info": info})
    return recs, meta


def validate(ctx, recs, meta, label):
    """TLC validates the records against the property; returns (verdicts, diags)."""
    verdicts, diags = [], []
    for i in range(0, len(recs), 20000):
        part = recs[i:i + 20000]
        for k, r in enumerate(part):
            r["id"] = k + 1
        path = os.path.join(ctx.tmp, "c07_%s_%d.json" % (label, i))
        core.write_json(path, part)
        r = core.tlc("Trace_CDecl", cfg_text=TRACE_CFG, workers=1, env={"TRACE_FILE": path}, timeout=1500)
        ctx.add_tlc("Trace_CDecl:" + label, r, count_states=False)
        chk = core.tla_tuples(r.out, "CHECKED")
        if not chk or int(chk[0][0]) != len(part):
            raise core.MachineryError("Trace_CDecl did not check all %d records:\n%s" % (len(part), r.out[-3000:]))
        for t in core.tla_tuples(r.out, "VERDICT"):
            verdicts.append((i + int(t[0]) - 1, core.unq(t[1]), sorted(tlaval.parse_value(t[2]))))
        for t in core.tla_tuples(r.out, "DIAG"):
            diags.append((i + int(t[0]) - 1, core.unq(t[1]), core.unq(t[2]), sorted(tlaval.parse_value(t[3]))))
        ctx.validated(len(part))
    return verdicts, diags


def violation_key(verdict, classes, m):
    """The key names the input class: where the string comes from (R well-formed rendering, NM
    near-miss, X real-size case), the verdict and the syntactic classes of CDecl!ClassOf."""
    cls = "+".join(classes) if classes else "none"
    kind = m["info"].get("kind", "R")
    return "%s:%s:%s" % (kind, verdict, cls)


def report(ctx, verdicts, meta):
    for idx, v, classes in verdicts:
        m = meta[idx]
        key = violation_key(v, classes, m)
        ctx.violation(key, "%s: %r (%s FFI)" % (WHAT[v], m["string"], m["mode"]),
                      {"string": m["string"], "toks": m["toks"], "mode": m["mode"], "info": m["info"]})


def run_cases(ctx, env, cases, label, diag=False):
    items = [(c[0], c[2]) for c in cases]
    results = pe.pool_map(env, FNS, "typeof_all", items, nproc=8)
    for c in cases:
        ctx.case(c[2])
    recs, meta = records_for(cases, results, diag)
    verdicts, diags = validate(ctx, recs, meta, label)
    report(ctx, verdicts, meta)
    return results, recs, meta, verdicts, diags


REAL_SIZE = [
    "int[4294967296]", "char[0x7fffffffffffffff]", "char[9223372036854775807]", "int[9223372036854775807]",
    "char[9223372036854775808]", "char[18446744073709551616]", "char[0x10000000000000000]",
    "int[2147483648][2]", "char[01777777777777777777777]", "short[0x7fffffffffffffff]",
    "int(*)(int,int,int,int,int,int,int,int,int,int,int,int,int,int,int,int,int,int,int,int)",
    "int " + "*" * 40, "int" + "[2]" * 12, "int " + "(" * 20 + "*" + ")" * 20,
    "int (*(*(*(*(*(*(*(*)(int))(int))(int))(int))(int))(int))(int))(int)",
    "unsigned long long int const volatile * const * volatile * x",
    "struct s1 (*(*[3])(struct s1 *, union u1 *))[0x10]",
    # typedefs of array / function types as parameters (Param(t) = Adjust(t)) and other reported corners
    "int(*)(vec_t)", "int(*)(vec_t p)", "int(*)(const vec_t)", "void(*)(long, mat_t, ...)", "myint (*(*)(vec_t))[3]",
    "int(*)(int (*)(mat_t), vec_t)", "vec_t *", "mat_t *", "func_t *", "func_t *(*)(void)", "int(*)(func_t)",
    "int(*)(int, func_t f)", "int(*)(...)", "int(*)(const void)", "int(*)(void volatile)", "int (*(x))", "func_t", "vec_t (*)(void)",
]


def run(ctx):
    quick = ctx.quick
    rng = ctx.rng
    # ------------------------------------------------------------ design level + enumeration
    if quick:
        confs = [("gen(full,d0,v2,nm)", 0, 2, 0, 0, "full"), ("gen(small,d2,v1)", 2, 1, 0, -1, "small")]
    else:
        confs = [("gen(full,d1,v2)", 1, 2, 0, -1, "full"), ("gen(small,d2,v2)", 2, 2, 0, -1, "small"),
                 ("gen(small,d3,v1)", 3, 1, 0, -1, "small"), ("gen(full,d0,v2,nm)", 0, 2, 0, 0, "full")]
    if os.environ.get("C07_CONFS"):          # development aid: [[name, depth, maxvar, nmvar, nmdepth, profile], ...]
        confs = [tuple(c) for c in json.loads(os.environ["C07_CONFS"])]
    rows_r, rows_nm = [], []
    with ThreadPoolExecutor(len(confs) + 1) as ex:
        futs = [ex.submit(core.tlc, "CDecl", cfg_text=pe.gen_cfg(d, v, nmv, nmd, prof), workers=4, timeout=2400)
                for name, d, v, nmv, nmd, prof in confs]
        # non-vacuity: a broken reading rule / a broken transcription is rejected by TLC
        sanity = [ex.submit(core.tlc, "CDecl", workers=2,
                            cfg_text=pe.gen_cfg(d, v, 0, -1, "small", invariants=(inv,), variant=var))
                  for var, inv, d, v in SANITY]
        envfut = ex.submit(pe.Env, ctx.tmp, "c07")
        for (name, d, v, nmv, nmd, prof), f in zip(confs, futs):
            r = f.result()
            ctx.add_tlc(name, r)
            rows = pe.parse_generator_output(r.out)
            rs = [x for x in rows if x[0] == "R"]
            if not rs:
                raise core.MachineryError("generator %s produced no rendering" % name)
            rows_r += rs
            rows_nm += [x for x in rows if x[0] == "NM"]
        for (var, inv, _d, _v), f in zip(SANITY, sanity):
            r = f.result()
            ctx.add_tlc("sanity:%s/%s" % (var, inv), r, require_ok=False, count_states=False)
            if r.ok or ("Invariant %s is violated" % inv) not in r.out:
                raise core.MachineryError("variant %s: %s was not rejected by TLC" % (var, inv))
        env = envfut.result()
    # ------------------------------------------------------------ spec -> code
    seen = set()
    cases = []
    for row in rows_r:
        _, term, toks, nvar, classes, pc = row
        if toks in seen:
            continue
        seen.add(toks)
        cases.append((len(cases), toks, pe.spaced(toks, rng),
                      {"kind": "R", "term": pe.norm_term(term), "nvar": nvar, "classes": sorted(classes),
                       "parsec": pc}))
    nr = len(cases)
    for row in rows_nm:
        _, toks, nm, rd, pc, classes = row
        if toks in seen or not toks:
            continue
        seen.add(toks)
        cases.append((len(cases), toks, pe.spaced(toks, rng),
                      {"kind": "NM", "nm": list(nm), "read": pe.norm_term(rd), "parsec": pe.norm_term(pc),
                       "classes": sorted(classes)}))
    nnm = len(cases) - nr
    # ------------------------------------------------------------ code -> spec: real sizes
    for s in REAL_SIZE:
        cases.append((len(cases), tuple(tokenize(s)), s, {"kind": "X"}))
    res = run_cases(ctx, env, cases, "all")
    model_notes(ctx, cases[:nr + nnm], res[0][:nr + nnm])
    for c in (cases[:2] + cases[nr:nr + 2] + cases[-1:]):
        ctx.sample({"string": c[2], "tokens": list(c[1]), "info": c[3]})
    keys = {}
    for k, _w, _p in ctx.violations:
        keys[k] = keys.get(k, 0) + 1
    ctx.cov["verdict_keys"] = keys
    ctx.cov["cases"] = {"renderings": nr, "near_misses": nnm, "real_size": len(REAL_SIZE)}
    ctx.cov["rule"] = ("distinct = distinct type strings given to typeof() of the in-line, out-of-line ABI and "
                       "API-mode FFIs; all non-trivial (every one is a rendering of a term with its white space "
                       "randomised, a one-token near-miss of one, or a real-size case)")
    ctx.cov["exhaustive"] = True
    ctx.assumptions += [
        "an aggregate keeps its identity under the names 'kind tag' and the typedef declared for it (the in-line "
        "FFI names struct s2 's2_t'); compared as (kind, tag)",
        "identity of ctype objects is demanded only for types not built on a struct/union/enum",
        "_Complex, bit-fields, '...' lengths and gcc attributes are outside the modelled grammar",
        "white space is drawn from space, tab, newline"]


def tokenize(s):
    return re.findall(r"[A-Za-z_$0-9]+|\.\.\.|\S", s)


# (model variant, invariant TLC must find violated, Depth, MaxVar)
SANITY = (("suffix-order", "ReadsBack", 2, 0), ("no-group", "ParseCAgrees", 1, 0), ("faithful", "ParseCStrict", 1, 1),
          ("old-qual-loop", "ParseCAgrees", 0, 1))


def model_notes(ctx, cases, results):
    """Where the real parsers leave the models (never a verdict)."""
    notes = ctx.cov.setdefault("model_divergences", [])
    n = ctx.cov.get("model_divergence_count", 0)
    for (cid, toks, s, info), (rid, outs, same) in zip(cases, results):
        if info["kind"] == "R":
            want_c = info["parsec"]
            want_py = "ok" if "base-before-modifier" not in info["classes"] else "err"
            if "paren-paren" in info["classes"] and ("__stdcall" in toks or "__cdecl" in toks):
                want_py = None      # '( __stdcall (' is rewritten textually by cparser (_r_stdcall2): not modelled
            term = info["term"]
        else:
            want_c = info["parsec"]["r"]
            want_py = None
            term = info["read"].get("t") if info["read"]["r"] == "ok" else None
        for m, o in outs.items():
            if m == "inline":
                if want_py is not None and ((o[0] == "ok") != (want_py == "ok") or (o[0] == "ok" and o[1] != term)):
                    n += 1
                    if len(notes) < 10:
                        notes.append({"string": s, "mode": m, "real": o, "model": want_py})
            else:
                model_ok = want_c == "ok"
                real_ok = o[0] == "ok"
                # "invalid"/"fntype" are rejected by typeof as well
                if model_ok != real_ok:
                    n += 1
                    if len(notes) < 10:
                        notes.append({"string": s, "mode": m, "real": o, "model": want_c})
    ctx.cov["model_divergence_count"] = n
    if n:
        print("NOTE C07: %d outcomes differ from the implementation models (first: %s)" % (n, notes[0]))


def replay(ctx, obj):
    env = pe.Env(ctx.tmp, tag="c07r")
    rp = obj["replay"]
    case = [(0, tuple(rp["toks"]), rp["string"], rp["info"])]
    ctx.cov["states"] = 1
    res = run_cases(ctx, env, case, "replay")
    print("replayed %r: %s" % (rp["string"], res[0][0][1]))


def selftest(ctx):
    env = pe.Env(ctx.tmp, tag="c07s", api=False)
    case = [(0, ("int", "*", "[", "3", "]"), "int *[3]", {"kind": "R"})]
    results = pe.pool_map(env, FNS, "typeof_all", [(0, "int *[3]")])
    recs, meta = records_for(case, results)
    v1, _ = validate(ctx, recs, meta, "self1")
    recs[0]["c"]["t"] = {"k": "ptr", "t": {"k": "arr", "t": {"k": "prim", "n": "int"}, "len": 3}}
    v2, _ = validate(ctx, recs, meta, "self2")
    recs[0]["c"] = {"r": "err", "t": NONE_T}
    v3, _ = validate(ctx, recs, meta, "self3")
    return not v1 and [v[1] for v in v2] == ["type-mismatch"] and [v[1] for v in v3] == ["py-accepts-c-rejects"]


META = {
    "category": "model_checking",
    "text": "TLC enumerates, from a generative model of the C type-name grammar, every (type term, token "
            "rendering) pair within the bound and checks that an independent analytic reader, a transcription "
            "of parse_c_type.c and of cparser's specifier normalisation read each back as the term (outside "
            "four syntactic classes the model singles out); every rendering and every one-token near-miss is "
            "replayed with random white space into typeof() of an in-line, an out-of-line ABI and an API-mode "
            "FFI with the same declarations, and TLC validates the recorded outcomes against the property "
            "(both reject, or the same type / identical ctype object).",
    "note": "Trusted: TLC, pycparser as the C grammar front end, gcc for the API-mode module. The grammar covers "
            "specifier orders, qualifiers, pointers, arrays with decimal/octal/hex/named lengths, function "
            "pointers (fixed, void, variadic, named/decayed parameters), __cdecl/__stdcall, nested and redundant "
            "parentheses, typedef aliases; not _Complex, bit-fields or attributes.",
    "technique": "TLA+ generative grammar + reader models (TLC) + replay of enumerated strings + TLC validation of outcomes",
    "design_ref": "DESIGN.md §3 C07",
}
