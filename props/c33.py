"""C33 — verify() produces the same library behaviour as set_source().

Specification : specs/CallLib.tla — a compiled library as a machine (global variables as memory
                cells read/written from Python and through C accessor functions, integer
                constants), independent of how it was built; specs/Call.tla Outcome for the
                call family.
Design level  : MC_CallLib — the complete behaviour graph for three globals at Base 4 with
                class-level stores (failed store changes nothing, stores are isolated, a read
                from Python or C sees the last store); CallGen enumerates the call space.
Binding       : one (cdef, C source) is built three ways — set_source()+gcc, ffi.verify() with
                the CPython engine, ffi.verify() with the generic engine (setuptools compiles
                in a tmpdir).  Walks of the TLC graph (and random continuations on float/char
                globals) are replayed as real attribute reads/writes and accessor calls on all
                three builds; the C13 argument tuples are executed on all three; exposed names
                and the layout of a partially declared struct are compared with the declaration
                and with gcc.  TLC validates every trace against the machine (Trace_CallLib)
                and every call record against Outcome (Trace_Call), Base 256.
"""
import json, os, subprocess
from concurrent.futures import ThreadPoolExecutor
from harness import core, tlaval
from harness import call_gen as G
from harness import call_lib as L
from harness import call_run as R
from props import c13

LEVEL = "model_checking"
BUILDS = ("api", "verify_cpy", "verify_gen")
OBJ_OPS = ("mk", "rdobj", "wrobj", "passobj", "same", "drop")
CLAUSE = {"exc": "a build raised a different exception type (or none) than the library machine",
          "ret": "a build returned a different value than the library machine",
          "static": "a build exposes different names / a different struct layout than declared (gcc reference)"}
CLAUSE.update(c13.CLAUSE)
OBJ_CFG = """SPECIFICATION Spec
CONSTANTS Base = 4
  Variant = "%s"
PROPERTY ResultsIndependent
PROPERTY DistinctObjects
CHECK_DEADLOCK FALSE
"""
QUOTA = {"sel": 7, "sum": 2, "wr": 2, "rdi": 2, "bump": 1, "seterr": 1, "smake": 2, "sget": 2, "vsum": 3,
         "isum": 1, "asum": 2}


def design_level(ctx):
    dump = os.path.join(ctx.tmp, "libgraph")
    dump2 = os.path.join(ctx.tmp, "objgraph")
    with ThreadPoolExecutor(max_workers=4) as ex:
        fg = ex.submit(R.run_gen, 2, 6)
        fm = ex.submit(core.tlc, "MC_CallLib", workers=4, dump=dump, timeout=1200)
        fo = ex.submit(core.tlc, "MC_CallLibObj", workers=2, dump=dump2, timeout=1200, env=R.LIGHT_JVM)
        fv = ex.submit(core.tlc, "MC_CallLibObj", cfg_text=OBJ_CFG % "shared_result_buffer", workers=1, timeout=600,
                       env=R.LIGHT_JVM)
        r = fm.result()
        ctx.add_tlc("MC_CallLib(3 globals, Base=4)", r)
        r2 = fo.result()
        ctx.add_tlc("MC_CallLibObj(2 kept results, Base=4)", r2)
        rv = fv.result()
        ctx.add_tlc("sanity:shared_result_buffer", rv, require_ok=False, count_states=False)
        if rv.ok or "ResultsIndependent" not in rv.out:
            raise core.MachineryError("broken variant shared_result_buffer was not rejected by TLC")
        space = R.parse_space(ctx, *fg.result())
    g = tlaval.load_dot(dump + ".dot")
    g2 = tlaval.load_dot(dump2 + ".dot")
    if len(g.states) != r.distinct or len(g2.states) != r2.distinct:
        raise core.MachineryError("state graph dump incomplete")
    return (g, g2), space


def pick_sigs(ctx, sigs, scale):
    by = {}
    for s in sigs:
        by.setdefault(s[0], []).append(s)
    chosen = []
    for fam, n in QUOTA.items():
        pool = by.get(fam, [])
        chosen += ctx.rng.sample(pool, min(len(pool), n * scale))
    return chosen


def build_all(ctx, tag, cdef, src):
    plan = R.build_libs(ctx, tag, cdef, src, want=("api",))
    plan["verify_cpy_module"] = "_call_vcpy_" + tag
    plan["verify_gen_module"] = "_call_vgen_" + tag
    pp = os.path.join(plan["dir"], "prebuild.json")
    core.write_json(pp, plan)
    procs = [subprocess.Popen([core.PY, "-m", "harness.call_exec", "--prebuild", pp, name], cwd=core.VERIF,
                              env=core.sub_env(), stdout=subprocess.PIPE, stderr=subprocess.STDOUT, text=True)
             for name in ("verify_cpy", "verify_gen")]
    for p in procs:
        out, _ = p.communicate(timeout=1200)
        if p.returncode != 0:
            raise core.MachineryError("ffi.verify() build failed:\n" + out[-3000:])
    return plan


def walk_events(ctx, g, lib, b, nwalks, length, extra):
    """Traces (lists of events) from random walks of the TLC graph + random continuations."""
    rng = ctx.rng
    globs, consts = lib["globals"], lib["consts"]
    kind = {1: [i for i, (_n, t, _v) in enumerate(globs) if t in L.SIGNED],
            2: [i for i, (_n, t, _v) in enumerate(globs) if t in L.UNSIGNED],
            3: [i for i, (_n, t, _v) in enumerate(globs) if t == "bool"]}
    g, g2 = g
    owalks = tlaval.walks(g2, rng, nwalks, maxlen=length)
    rt = lib.get("rtype", "i32")
    traces = []
    for w, path in enumerate(tlaval.walks(g, rng, nwalks, maxlen=length)):
        choice = {k: rng.choice(v) for k, v in kind.items()}
        evs = [{"op": "static", "what": "names"}, {"op": "static", "what": "layout"}]
        if w < 3:                                   # every constant is read at least once per build
            evs += [{"op": "readc", "i": j + 1, "name": c[0], "expect": "", "cls": ""} for j, c in enumerate(consts)]
        for _act, _args, st in path:
            last = st["last"]
            op = last["op"]
            if op == "readc":
                j = rng.randrange(len(consts))
                evs.append({"op": op, "i": j + 1, "name": consts[j][0], "expect": last["exc"], "cls": ""})
                continue
            gi = choice[last["i"]]
            name, t, _v = globs[gi]
            ev = {"op": op, "i": gi + 1, "name": name, "expect": last["exc"], "cls": last["cls"]}
            if op in ("writeg", "setg"):
                ev["desc"] = L.value_for(b, t, last["cls"])
            evs.append(ev)
        for _act, _args, st in owalks[w]:            # result objects: keep, call again, read / write / pass / compare
            last = st["last"]
            ev = {"op": last["op"], "j": last["j"], "k": last["k"], "f": last["f"], "expect": last["exc"],
                  "cls": "%s,%s" % (last["c1"], last["c2"])}
            if last["op"] == "mk":
                ev["descs"] = [b.int_arg(rt, last["c1"]), b.bool_arg(last["c2"])]
            elif last["op"] == "wrobj":
                ev["desc"] = b.int_arg(rt, last["c1"]) if last["f"] == 1 else b.bool_arg(last["c2"])
            evs.append(ev)
        for _ in range(extra):                      # code -> spec: any global, any value class
            gi = rng.randrange(len(globs))
            name, t, _v = globs[gi]
            op = rng.choice(["readg", "getg", "writeg", "setg", "readc"])
            if op == "readc":
                j = rng.randrange(len(consts))
                evs.append({"op": op, "i": j + 1, "name": consts[j][0], "expect": "?", "cls": ""})
                continue
            ev = {"op": op, "i": gi + 1, "name": name, "expect": "?", "cls": ""}
            if op in ("writeg", "setg"):
                cls = rng.choice(sorted(b.cls[t]))
                ev["cls"] = cls
                ev["desc"] = b.arg(t, cls, [], 1)
                if ev["desc"][0] in ("cell", "struct"):
                    ev["desc"] = ["none"]
            evs.append(ev)
        traces.append({"id": w + 1, "events": evs})
    return traces


def lib_records(lib, traces, obs, names_ref, layout_ref):
    """Trace_CallLib input: one trace per (behaviour, build)."""
    out, meta = [], {}
    tid = 0
    for tr in traces:
        for build in BUILDS:
            tid += 1
            evs = []
            for ev, o in zip(tr["events"], obs[tr["id"]][build]):
                if ev["op"] == "static":
                    evs.append({"op": "static", "obs": o, "ref": names_ref if ev["what"] == "names" else layout_ref})
                elif ev["op"] in OBJ_OPS:
                    evs.append({"op": ev["op"], "j": ev["j"], "k": ev["k"], "f": ev["f"], "expect": ev["expect"], "obs": o,
                                "v": G.enc_desc(ev["desc"], []) if "desc" in ev else {"k": "none"},
                                "vs": [G.enc_desc(d, []) for d in ev.get("descs", [])]})
                else:
                    e = {"op": ev["op"], "i": ev["i"], "expect": ev["expect"], "obs": o,
                         "v": G.enc_desc(ev["desc"], []) if "desc" in ev else {"k": "none"}}
                    evs.append(e)
            out.append({"id": tid, "build": build, "init": L.init_cells(lib), "events": evs})
            meta[tid] = (tr, build)
    return out, meta


def validate_lib(ctx, lib, recs, chunk=120):
    """Trace_CallLib on chunks of traces (its cost per step grows with the size of the file), in parallel."""
    chunks = [recs[i:i + chunk] for i in range(0, len(recs), chunk)] or [[]]
    base = len(ctx.cov["tlc_runs"])

    def one(i):
        path = os.path.join(ctx.tmp, "Trace_CallLib_%d_%d.json" % (base, i))
        core.write_json(path, {"lib": L.tla_lib(lib), "traces": chunks[i]})
        return core.tlc("Trace_CallLib", workers=1, env=dict(R.LIGHT_JVM, TRACE_FILE=path), timeout=1500)
    with ThreadPoolExecutor(max_workers=4) as ex:
        results = list(ex.map(one, range(len(chunks))))
    bad = {}
    for i, r in enumerate(results):
        ctx.add_tlc("Trace_CallLib[%d]" % i, r, count_states=False)
        checked = core.tla_tuples(r.out, "CHECKED")
        if not checked or int(checked[0][0]) != len(chunks[i]):
            raise core.MachineryError("Trace_CallLib did not check every trace:\n" + r.out[-3000:])
        for t in core.tla_tuples(r.out, "VERDICT"):
            bad[int(t[0])] = (int(t[1]), core.unq(t[2]))
    return bad


def one_library(ctx, g, space, tag, scale):
    sigs, cls, vcls = space
    chosen = pick_sigs(ctx, sigs, scale)
    funcs = {}
    for i, s in enumerate(x for x in chosen if x[0] != "vsum"):
        funcs["f%d" % i] = s
    vs = [s for s in chosen if s[0] == "vsum"]
    if vs:
        funcs["vsum"] = ("vsum", ())
    lib = L.make(ctx.rng, funcs)
    cdef, src = L.render(lib)
    plan = build_all(ctx, tag, cdef, src)
    sz = core.gcc_run(L.layout_probe(lib), plan["dir"], "layout")
    layout_ref = [int(x) for x in sz.split()]
    names_ref = L.names(lib)
    b = G.Builder(ctx.rng, cls, vcls)
    # ---- part A: the call family on the three builds
    cases, meta = [], {}
    cid = 0
    ntuples = 10 if ctx.quick else 30
    for name, s in sorted(funcs.items()):
        targets = vs if s[0] == "vsum" else [s]
        for s2 in targets:
            forced = []
            if s2[0] == "asum":     # every convertible list class x every length around the 640-byte threshold
                forced = [(c, n) for c in ("sl_full", "sl_short", "sl_dict", "sl_empty", "sl_tuple") for n in b.big_n(s2)]
            for j in range(len(forced) + (ntuples if s[0] != "vsum" else 3)):
                cid += 1
                case, expect = b.case(cid, name, s2, pbad=0.3, force_ok=(j == 0), single_bad=True,
                                      force=forced[j] if j < len(forced) else None)
                cases.append(case)
                meta[cid] = (s2, expect)
    obs, crashes = R.execute(ctx, plan, cases, BUILDS, nworkers=2)
    records = [G.record(c, meta[c["id"]][0], meta[c["id"]][1], obs[c["id"]]) for c in cases if c["id"] in obs]
    for c in cases:
        ctx.case(("call", tag, c["id"]))
    bad = R.validate(ctx, records, chunk=1500, parallel=2)
    byid = {c["id"]: c for c in cases}
    for cr in crashes:
        s = meta[cr["case"]["id"]][0]
        ctx.violation("call:" + c13.key_of(s, cr["case"], "crash", cr["path"]), "interpreter died with signal %d" % cr["signal"],
                      {"part": "call", "sig": s, "case": cr["case"], "cdef": cdef, "src": src})
    for k, vsd in sorted(bad.items()):
        s, expect = meta[k]
        if any(v[0] == "spec" for v in vsd):
            raise core.MachineryError("CallGen / Outcome inconsistent for %r %r" % (s, byid[k]["args"]))
        path, clause, detail = vsd[0]
        ctx.violation("call:" + c13.key_of(s, byid[k], clause, path), CLAUSE.get(clause, clause),
                      {"part": "call", "sig": s, "case": byid[k], "expect": expect, "observed": obs[k],
                       "predicted": str(detail)[:1200]})
    ctx.validated(len(records) * len(BUILDS))
    # ---- part B: library behaviours
    traces = walk_events(ctx, g, lib, b, 40 if ctx.quick else 300, 10 if ctx.quick else 14, 6)
    lplan = dict(plan)
    tobs, tcr = R.execute(ctx, lplan, traces, BUILDS, nworkers=1 if ctx.quick else 4, runner="harness.call_libexec")
    if tcr:
        for cr in tcr:
            ctx.violation("lib:%s:crash" % cr["path"], "interpreter died with signal %d" % cr["signal"],
                          {"part": "lib", "trace": cr["case"], "cdef": cdef, "src": src})
    traces = [t for t in traces if t["id"] in tobs]
    recs, tmeta = lib_records(lib, traces, tobs, names_ref, layout_ref)
    lbad = validate_lib(ctx, lib, recs)
    for tid, (pos, clause) in sorted(lbad.items()):
        tr, build = tmeta[tid]
        ev = tr["events"][pos - 1]
        if clause == "expect":
            raise core.MachineryError("MC_CallLib (Base 4) and the machine at Base 256 disagree on %r of %r" % (ev, lib["globals"]))
        gt = (lib["globals"][ev["i"] - 1][1] if ev["op"] in ("readg", "writeg", "getg", "setg")
              else "R" if ev["op"] in OBJ_OPS else ev.get("what", "const"))
        ctx.violation("lib:%s:%s(%s)[%s]:%s" % (build, ev["op"], gt, ev.get("cls", ""), clause), CLAUSE.get(clause, clause),
                      {"part": "lib", "build": build, "lib": lib, "events": tr["events"][:pos], "position": pos,
                       "observed": tobs[tr["id"]][build][:pos], "cdef": cdef, "src": src})
    for t in traces:
        ctx.case(("lib", tag, t["id"]))
    ctx.validated(len(recs))
    ctx.sample({"kind": "library behaviour replayed on set_source / verify(cpy) / verify(gen)",
                "globals": lib["globals"], "events": traces[0]["events"][:6],
                "observed": {bd: tobs[traces[0]["id"]][bd][:6] for bd in BUILDS}}, limit=3)
    return len(records), len(recs)


def run(ctx):
    g, space = design_level(ctx)
    nlib = 1 if ctx.quick else 3
    tot = [0, 0]
    for i in range(nlib):
        a, bb = one_library(ctx, g, space, "L%d" % i, 1 if ctx.quick else 2)
        tot[0] += a
        tot[1] += bb
    ctx.cov["call_records"], ctx.cov["library_traces"] = tot
    ctx.cov["rule"] = ("distinct = (library, call tuple) executed on the three builds + (library, behaviour) replayed "
                       "on the three builds; every behaviour has >= 10 events on >= 2 globals")
    ctx.cov["exhaustive"] = False
    ctx.assumptions += [
        "at most one argument of a call is unconvertible (which of two errors is reported first is not constrained)",
        "sizeof/offsetof reference = gcc on this platform; dir(lib) must list exactly the declared names",
        "the three builds are separate shared objects, each with its own copy of the globals"]


def replay(ctx, obj):
    rp = obj["replay"]
    ctx.cov["states"] = ctx.cov["transitions"] = 1
    if rp.get("part") == "call" and "cdef" not in rp:
        sig = tuple(tuple(x) if isinstance(x, list) else x for x in rp["sig"])
        funcs = {"vsum" if sig[0] == "vsum" else "f0": ("vsum", ()) if sig[0] == "vsum" else sig}
        cdef, src = G.render_module(funcs)
        plan = build_all(ctx, "replay", cdef, src)
        case = dict(rp["case"])
        case["fname"] = list(funcs)[0]
        obs, crashes = R.execute(ctx, plan, [case], BUILDS, nworkers=1)
        bad = R.validate(ctx, [G.record(case, sig, rp.get("expect", ""), obs[case["id"]])]) if not crashes else {1: [("", "crash", "")]}
        for k, vs in bad.items():
            ctx.violation(obj["key"], CLAUSE.get(vs[0][1], vs[0][1]), rp)
        print("replayed call on the three builds: %s" % ("rejected" if bad else "accepted"))
        return
    lib = rp["lib"]
    lib["globals"] = [tuple(x) for x in lib["globals"]]
    lib["consts"] = [tuple(x) for x in lib["consts"]]
    lib["funcs"] = {k: tuple(tuple(y) if isinstance(y, list) else y for y in v) for k, v in lib["funcs"].items()}
    cdef, src = L.render(lib)
    plan = build_all(ctx, "replay", cdef, src)
    tr = {"id": 1, "events": rp["events"]}
    tobs, _ = R.execute(ctx, plan, [tr], BUILDS, nworkers=1, runner="harness.call_libexec")
    sz = core.gcc_run(L.layout_probe(lib), plan["dir"], "layout")
    recs, tmeta = lib_records(lib, [tr], tobs, L.names(lib), [int(x) for x in sz.split()])
    for e in [e for r in recs for e in r["events"]]:
        if e["op"] != "static":
            e["expect"] = "?"
    lbad = validate_lib(ctx, lib, recs)
    for tid, (pos, clause) in lbad.items():
        ctx.violation(obj["key"], CLAUSE.get(clause, clause), rp)
        break
    print("replayed behaviour on the three builds: %s" % ("rejected" if lbad else "accepted"))


def selftest(ctx):
    lib = {"globals": [("g1", "i16", -5), ("g2", "u8", 7), ("g3", "bool", 1)], "consts": [("K_1", "define", 42)],
           "ptype": "i32", "funcs": {}}
    tr = [{"id": 1, "build": "api", "init": L.init_cells(lib), "events": [
        {"op": "writeg", "i": 1, "expect": "", "v": G.enc_int(300), "obs": {"exc": "", "ret": {"k": "none"}}},
        {"op": "getg", "i": 1, "expect": "", "v": {"k": "none"}, "obs": {"exc": "", "ret": G.enc_int(300)}},
        {"op": "setg", "i": 2, "expect": "OverflowError", "v": G.enc_int(256), "obs": {"exc": "OverflowError", "ret": {"k": "none"}}},
        {"op": "readg", "i": 2, "expect": "", "v": {"k": "none"}, "obs": {"exc": "", "ret": G.enc_int(7)}}]}]
    ok1 = not validate_lib(ctx, lib, tr)
    tr[0]["events"][1]["obs"]["ret"] = G.enc_int(301)
    ok2 = validate_lib(ctx, lib, tr).get(1) == (2, "ret")
    tr[0]["events"][1]["obs"]["ret"] = G.enc_int(300)
    tr[0]["events"][2]["obs"]["exc"] = ""
    ok3 = validate_lib(ctx, lib, tr).get(1) == (3, "exc")
    return ok1 and ok2 and ok3


META = {
    "category": "model_checking",
    "text": "CallLib.tla describes a compiled library as a machine (globals as cells read/written from Python and "
            "through C accessors, constants, the call family with Outcome) independent of the build; TLC explores the "
            "complete behaviour graph for three globals at Base 4 and enumerates the call space; one (cdef, source) "
            "is built by set_source()+gcc and by ffi.verify() with both engines, walks of the TLC graph plus random "
            "continuations and the C13 argument tuples are executed on all three builds, and TLC validates every "
            "trace and call record against the machine / Outcome at Base 256; exposed names and the layout of a "
            "partially declared struct are compared with the declaration and gcc.",
    "note": "Trusted: gcc, setuptools, TLC. Few libraries per run (verify() compiles through setuptools); features "
            "verify() does not support (extern \"Python\", embedding) are outside;",
    "technique": "TLA+ machine (TLC exhaustive small graph) + replay of its walks on three real builds + TLC "
                 "validation of recorded traces and calls",
    "design_ref": "DESIGN.md §3 C33",
}
