"""C06 - primitive type facts agree with the compiler and across all type tables.

Design level : specs/Platform.tla holds the platform's primitive table (written from the psABI
               and glibc, not from cffi).  specs/PlatformTables.tla states what it means for
               cffi's name<->index tables to be consistent and contains the control skeleton of
               search_standard_typename.  The tables themselves are extracted from the working
               tree at check time (PRIMITIVE_TO_INDEX + PRIM_* of cffi_opcode.py, _CFFI_PRIM_* of
               parse_c_type.h, primitive_name[] of realize_c_type.c, ENUM_PRIMITIVE_TYPES of
               _cffi_backend.c, ALL_PRIMITIVE_TYPES of model.py, the aliases of commontypes, the
               if-lines of search_standard_typename) and given to TLC, which checks the bijection
               laws and explores one state per candidate string: every name and every string at
               edit distance 1 from a standard `_t` name (~27 000): found iff it is a name, with
               that name's index.
Binding      : (spec -> code) every candidate string TLC explored is given to the real C parser
               (_cffi_backend.FFI().typeof): a name must denote its own type, anything else must
               raise ffi.error.  (code -> spec) for every name and alias, gcc reports sizeof,
               _Alignof, kind, signedness, min and max; cffi is asked the same through four paths
               (in-line FFI, bare _cffi_backend.FFI(), out-of-line ABI module and API module whose
               typedefs force every opcode index through realize_c_type), the integer range is
               found by boundary stores, and the ctype objects must be identical across the paths.
               Trace_Platform validates gcc against Platform!Prim first, then cffi.
"""
import contextlib, importlib, io, json, os, re, sys
from harness import core, tlaval
from harness.types_enum import enc

LEVEL = "model_checking"
XSS = {"JAVA_TOOL_OPTIONS": "-Xss64m -XX:ParallelGCThreads=2 -Xms256m"}


# --------------------------------------------------------------------------- extraction from the sources

def _read(*p):
    with open(os.path.join(core.REPO, "src", *p)) as f:
        return f.read()


def extract_switch(src):
    """the if-lines of search_standard_typename with the enclosing switch cases / size guards"""
    m = re.search(r"int search_standard_typename\(const char \*p, size_t size\)\s*\{(.*?)\n\}\n", src, re.S)
    if not m:
        raise ValueError("search_standard_typename not found")
    stack, entries = [], []          # stack of ["switch", pos, ch] | ["if", minsize] | ["other"]
    for line in m.group(1).splitlines():
        s = line.strip()
        if not s or s.startswith("/*") or s in ("break;", "return -1;", "default:"):
            if s == "default:":
                for fr in reversed(stack):
                    if fr[0] == "switch":
                        fr[2] = None
                        break
            continue
        mm = re.fullmatch(r"switch \(p\[(\d+)\]\) \{", s)
        if mm:
            stack.append(["switch", int(mm.group(1)), None])
            continue
        mm = re.fullmatch(r"case '(.)':", s)
        if mm:
            for fr in reversed(stack):
                if fr[0] == "switch":
                    fr[2] = mm.group(1)
                    break
            continue
        mm = re.fullmatch(r"if \(size >= (\d+)\) \{", s)
        if mm:
            stack.append(["if", int(mm.group(1))])
            continue
        if s == "}":
            stack.pop()
            continue
        mm = re.fullmatch(r'if \(size == (\d+) && !memcmp\(p, "([^"]*)",\s*(\d+)\)\) return _CFFI_(\w+);', s)
        if mm:
            conds = [{"pos": fr[1], "ch": fr[2]} for fr in stack if fr[0] == "switch"]
            if any(c["ch"] is None for c in conds):
                raise ValueError("if-line under default:")
            entries.append({"conds": conds, "minsize": max([fr[1] for fr in stack if fr[0] == "if"] + [0]),
                            "size": int(mm.group(1)), "prefix": mm.group(2), "n": int(mm.group(3)),
                            "sym": mm.group(4)})
            continue
        if s.startswith("if (size < 6 || p[size-2] != '_' || p[size-1] != 't')"):
            continue
        raise ValueError("unexpected line in search_standard_typename: %r" % s)
    return entries


def extract_tables():
    import cffi.cffi_opcode as op, cffi.model as model, cffi.commontypes as ct
    t = {}
    t["py_index"] = [{"name": n, "idx": i} for n, i in sorted(op.PRIMITIVE_TO_INDEX.items())]
    t["py_const"] = [{"sym": k, "idx": getattr(op, k)} for k in sorted(vars(op))
                     if k.startswith("PRIM_") or k in ("_NUM_PRIM", "_UNKNOWN_PRIM", "_UNKNOWN_FLOAT_PRIM",
                                                        "_UNKNOWN_LONG_DOUBLE")]
    h = _read("cffi", "parse_c_type.h")
    t["h_define"] = []
    for m in re.finditer(r"#define\s+_CFFI_(PRIM_\w+|_NUM_PRIM|_UNKNOWN\w+)\s+\(?(-?\d+)\)?", h):
        t["h_define"].append({"sym": m.group(1), "idx": int(m.group(2))})
    r = _read("c", "realize_c_type.c")
    m = re.search(r"static const char \*primitive_name\[\] = \{(.*?)\};", r, re.S)
    t["c_names"] = ["" if x == "NULL" else x.strip('"') for x in re.findall(r'NULL|"[^"]*"', m.group(1))]
    b = _read("c", "_cffi_backend.c")
    m = re.search(r"#define ENUM_PRIMITIVE_TYPES\s(.*?)\n\n", b, re.S)
    body = m.group(1)
    mw = re.search(r"# define ENUM_PRIMITIVE_TYPES_WCHAR\s*\\\n(.*?)\n#else", b, re.S)
    body = body.replace("ENUM_PRIMITIVE_TYPES_WCHAR", mw.group(1))
    t["backend"] = []
    flat = re.sub(r"/\*.*?\*/", " ", body.replace("\\\n", " "), flags=re.S)
    for part in re.split(r"(?=EPTYPE2?\()", flat):
        m = re.match(r'EPTYPE2?\(\s*\w+\s*,\s*(?:"([^"]*)"\s*,\s*[\w ]+?|([\w ]+?))\s*,\s*(CT_.*)\)\s*$', part.strip(), re.S)
        if not m:
            continue
        name = m.group(1) or m.group(2)
        flags = m.group(3)
        kind = ("bool" if "CT_IS_BOOL" in flags else "char" if "CT_PRIMITIVE_CHAR" in flags else
                "signed" if "CT_PRIMITIVE_SIGNED" in flags else "unsigned" if "CT_PRIMITIVE_UNSIGNED" in flags else
                "float" if "CT_PRIMITIVE_FLOAT" in flags else "complex" if "CT_PRIMITIVE_COMPLEX" in flags else "?")
        t["backend"].append({"name": name, "kind": kind})
    t["model"] = [{"name": n, "kind": k} for n, k in sorted(model.PrimitiveType.ALL_PRIMITIVE_TYPES.items())]
    t["aliases"] = [{"name": n, "target": v} for n, v in sorted(ct.COMMON_TYPES.items())
                    if isinstance(v, str) and v in model.PrimitiveType.ALL_PRIMITIVE_TYPES and n != v]
    try:
        t["switch"] = extract_switch(_read("c", "parse_c_type.c"))
    except ValueError as e:
        t["switch"] = None
        t["switch_error"] = str(e)
    t["alphabet"] = list("abcdefghijklmnopqrstuvwxyz0123456789_")
    return t


# --------------------------------------------------------------------------- measurements

PROBES = sorted(set([0, 1, 2, -1, -2] + [s * (2**w) + d for w in (7, 8, 15, 16, 31, 32, 63, 64)
                                         for s in (1, -1) for d in (-1, 0, 1)]))

GCC_TMPL = r"""
#include <stddef.h>
#include <stdint.h>
#include <stdio.h>
#include <uchar.h>
#include <wchar.h>
#include <sys/types.h>
#include <stdbool.h>
#define KIND(T) _Generic((T)0, _Bool: "bool", float: "float", double: "float", long double: "float", \
    float _Complex: "complex", double _Complex: "complex", long double _Complex: "complex", default: "int")
#define INTPROBE(NAME, T) do { int sg = ((T)-1) < (T)0; int b = _Generic((T)0, _Bool: 1, default: 0); \
    unsigned long long mx = b ? 1ULL : sg ? (((1ULL << (8 * sizeof(T) - 2)) - 1) * 2 + 1) : (unsigned long long)(T)-1; \
    printf("%s|%zu|%zu|%s|%d|%s%llu|%llu\n", NAME, sizeof(T), _Alignof(T), KIND(T), sg, \
           sg ? "-" : "", sg ? mx + 1 : 0ULL, mx); } while (0)
#define FLTPROBE(NAME, T) printf("%s|%zu|%zu|%s|0|0|0\n", NAME, sizeof(T), _Alignof(T), KIND(T))
int main(void) {
@@BODY@@
  return 0;
}
"""


def c_spelling(name):
    return {"_cffi_float_complex_t": "float _Complex", "_cffi_double_complex_t": "double _Complex"}.get(name, name)


def gcc_measure(ctx, names, kinds):
    """every name in its own translation unit would be slow; instead one TU, and names gcc does not
    know are found by a second, per-name attempt."""
    def prog(ns):
        lines = []
        for n in ns:
            macro = "FLTPROBE" if kinds.get(n) in ("float", "complex") else "INTPROBE"
            lines.append('  %s("%s", %s);' % (macro, n, c_spelling(n)))
        return GCC_TMPL.replace("@@BODY@@", "\n".join(lines))
    res = {}
    try:
        out = core.gcc_run(prog(names), ctx.tmp, name="prim_probe")
        ok = names
    except core.MachineryError:
        out, ok = "", []
        for n in names:
            try:
                out += core.gcc_run(prog([n]), ctx.tmp, name="prim_probe1")
                ok.append(n)
            except core.MachineryError:
                res[n] = {"ok": False, "size": 0, "align": 0, "kind": "", "sgn": False, "min": enc(0), "max": enc(0)}
    for line in out.splitlines():
        n, size, align, kind, sg, mn, mx = line.split("|")
        res[n] = {"ok": True, "size": int(size), "align": int(align), "kind": kind, "sgn": sg == "1",
                  "min": enc(int(mn)), "max": enc(int(mx))}
    return res


def observe(ffi, t, base_t):
    """what cffi reports for the ctype t reached through some path"""
    tn = type(ffi.new(ffi.getctype(t, "*"))[0]).__name__
    kind = {"bytes": "char", "str": "char", "bool": "bool", "int": "int", "float": "float",
            "complex": "complex"}.get(tn)
    if kind is None:
        kind = "float" if t.cname == "long double" else "?" + tn
    o = {"ok": True, "size": ffi.sizeof(t), "align": ffi.alignof(t), "kind": kind, "sgn": False, "probes": [],
         "same": t is base_t, "cname": t.cname}
    if kind in ("int", "bool"):
        o["sgn"] = int(ffi.cast(t, -1)) < 0
        ptr = ffi.getctype(t, "*")
        for v in PROBES:
            try:
                acc = int(ffi.new(ptr, v)[0]) == v
            except OverflowError:
                acc = False
            o["probes"].append({"v": enc(v), "acc": acc})
    return o


def cffi_measure(ctx, names):
    """-> {name: [observation per path]} ; paths: inline, backend, abi, api"""
    import cffi, _cffi_backend
    res = {n: [] for n in names}

    def fail(path, e):
        return {"path": path, "ok": False, "err": "%s: %s" % (type(e).__name__, str(e)[:200]), "size": 0, "align": 0,
                "kind": "", "sgn": False, "probes": [], "same": False, "cname": ""}
    inline = cffi.FFI()
    base = {}
    for n in names:
        try:
            base[n] = inline.typeof(n)
            res[n].append(dict(observe(inline, base[n], base[n]), path="inline"))
        except Exception as e:
            base[n] = None
            res[n].append(fail("inline", e))
    bare = _cffi_backend.FFI()
    for n in names:
        try:
            res[n].append(dict(observe(bare, bare.typeof(n), base[n]), path="backend"))
        except Exception as e:
            res[n].append(fail("backend", e))
    # out-of-line modules: one typedef per name forces the primitive's opcode index through
    # realize_c_type / build_primitive_type
    tds = {n: "c06_td_%d" % i for i, n in enumerate(names)}
    src = "\n".join("typedef %s %s;" % (n, tds[n]) for n in names)
    csrc = "#include <stddef.h>\n#include <stdint.h>\n#include <uchar.h>\n#include <wchar.h>\n" \
           "#include <sys/types.h>\n#include <stdbool.h>\n" + \
           "\n".join("typedef %s %s;" % (c_spelling(n), tds[n]) for n in names)
    sys.path.insert(0, ctx.tmp)
    for path, source in (("abi", None), ("api", csrc)):
        try:
            f = cffi.FFI()
            f.cdef(src)
            modname = "_c06_%s_%d" % (path, os.getpid())
            f.set_source(modname, source)
            with contextlib.redirect_stdout(io.StringIO()):      # "generating ..." chatter
                if source is None:
                    f.emit_python_code(os.path.join(ctx.tmp, modname + ".py"))
                else:
                    cp = os.path.join(ctx.tmp, modname + ".c")
                    f.emit_c_code(cp)
            if source is not None:
                core.build_ext_module(modname, cp, ctx.tmp)
            mod = importlib.import_module(modname)
        except Exception as e:
            for n in names:
                res[n].append(fail(path, e))
            continue
        for n in names:
            try:
                res[n].append(dict(observe(mod.ffi, mod.ffi.typeof(tds[n]), base[n]), path=path))
            except Exception as e:
                res[n].append(fail(path, e))
    return res


def validate(ctx, recs):
    path = os.path.join(ctx.tmp, "prim_%d.json" % len(ctx.cov["tlc_runs"]))
    core.write_json(path, recs)
    r = core.tlc("Trace_Platform", workers=2, env=dict(XSS, TRACE_FILE=path), timeout=1800)
    ctx.add_tlc("Trace_Platform(%d names x gcc + 4 cffi paths)" % len(recs), r, count_states=False)
    checked = set(core.unq(t[0]) for t in core.tla_tuples(r.out, "CHECKED"))
    if checked != set(x["name"] for x in recs):
        raise core.MachineryError("trace validation incomplete: %d of %d\n%s" % (len(checked), len(recs), r.out[-1500:]))
    verdicts = {}
    for t in core.tla_tuples(r.out, "VERDICT"):
        verdicts.setdefault(core.unq(t[0]), []).append((core.unq(t[1]), core.unq(t[2])))
    return verdicts


def judge(ctx, recs, verdicts):
    byname = {r["name"]: r for r in recs}
    for name, vs in verdicts.items():
        rec = byname[name]
        for who, clause in vs:
            if who in ("gcc", "spec"):
                raise core.MachineryError("the platform table and gcc disagree on '%s' (%s %s): gcc=%s" % (
                    name, who, clause, rec["gcc"]))
        seen = set()
        for who, clause in vs:
            if (who, clause) in seen:
                continue
            seen.add((who, clause))
            obs = [o for o in rec["cffi"] if "cffi:" + o["path"] == who][0]
            ctx.violation("prim:%s:%s:%s" % (name, who[5:], clause),
                          "'%s' via the %s path: %s differs from the compiler / the other paths (observed %s, gcc %s)" % (
                              name, who[5:], clause, {k: obs[k] for k in ("ok", "size", "align", "kind", "sgn", "same", "cname")},
                              {k: rec["gcc"][k] for k in ("size", "align", "kind", "sgn")}),
                          {"name": name, "path": who[5:], "clause": clause, "observed": obs, "gcc": rec["gcc"]})
    ctx.validated(len(recs))


def replay_candidates(ctx, cands, index_name):
    """every candidate string of the TLC state space into the real C parser"""
    import _cffi_backend, cffi
    bare = _cffi_backend.FFI()
    ref = cffi.FFI()
    n_ok = 0
    for s, idx in cands:
        ctx.case(("cand", s))
        try:
            t = bare.typeof(s)
            got = t
        except bare.error:
            got = None
        if idx >= 0:
            want = ref.typeof(index_name[idx])
            if got is not want:
                ctx.violation("parser:name:%s" % s, "the C type parser does not resolve the primitive name '%s' to its "
                              "own type (got %r)" % (s, got), {"candidate": s, "index": idx})
        elif got is not None:
            ctx.violation("parser:nonname:%s" % s, "the C type parser accepts '%s', which is not a type name, as %r"
                          % (s, got), {"candidate": s, "index": idx})
        n_ok += 1
    ctx.validated(n_ok)


def tables_cfg(with_switch, printing):
    inv = "INVARIANT SearchExact\n" if with_switch else ""
    return "SPECIFICATION Spec\n%s%sCHECK_DEADLOCK FALSE\n" % (inv, "INVARIANT PrintCands\n" if printing else "")


def run(ctx):
    # ---------------------------------------------------------------- design level: the tables
    tables = extract_tables()
    with_switch = tables["switch"] is not None
    if not with_switch:
        print("NOTE C06: search_standard_typename no longer has the shape the extractor knows (%s); its "
              "transcription is skipped, the real parser is still exercised on every candidate" % tables["switch_error"])
        tables["switch"] = []
    tpath = os.path.join(ctx.tmp, "tables.json")
    core.write_json(tpath, tables)
    r = core.tlc("PlatformTables", cfg_text=tables_cfg(with_switch, True), workers=1,
                 env=dict(XSS, TABLES_FILE=tpath), timeout=1800)
    ctx.cov["tables"] = {k: len(v) for k, v in tables.items() if isinstance(v, list)}
    if not r.ok:
        # an ASSUME (table consistency) or the invariant (search) failed: this is a finding about cffi's tables
        m = re.search(r"Assumption line (\d+)", r.out)
        which = "?"
        if m:
            spec = open(os.path.join(core.SPECS, "PlatformTables.tla")).read().splitlines()
            which = spec[int(m.group(1)) - 1].replace("ASSUME", "").strip()
        elif r.invariant_violated:
            which = r.invariant_violated[0]
            mm = re.search(r'cand = "([^"]*)"', r.out)
            which += ":" + (mm.group(1) if mm else "?")
        else:
            raise core.MachineryError("PlatformTables failed:\n" + r.out[-3000:])
        ctx.add_tlc("PlatformTables(rejected: %s)" % which, r, require_ok=False)
        ctx.cov["states"] += 1        # TLC stopped at the failing law: the evaluation that decided it
        ctx.cov["transitions"] += 1
        ctx.violation("tables:%s" % which, "cffi's primitive type tables are inconsistent: law %s fails" % which,
                      {"law": which, "tables": {k: v for k, v in tables.items() if k != "alphabet"}})
        cands = []
    else:
        ctx.add_tlc("PlatformTables(%d candidate strings)" % r.distinct, r)
        cands = [(core.unq(t[0]), int(t[1])) for t in core.tla_tuples(r.out, "CAND")]
        if len(cands) != r.distinct:
            raise core.MachineryError("PlatformTables printed %d candidates for %d states" % (len(cands), r.distinct))
    # non-vacuity: a corrupted copy of the tables must be rejected
    for what in ("swap", "typo"):
        bad = json.loads(json.dumps(tables))
        if what == "swap":
            bad["c_names"][5], bad["c_names"][6] = bad["c_names"][6], bad["c_names"][5]
        elif with_switch:
            bad["switch"][0]["n"] -= 1          # memcmp(p, "uint16", 5): "uint1X_t" would be found
        else:
            continue
        bpath = os.path.join(ctx.tmp, "tables_%s.json" % what)
        core.write_json(bpath, bad)
        rb = core.tlc("PlatformTables", cfg_text=tables_cfg(with_switch, False), workers=1,
                      env=dict(XSS, TABLES_FILE=bpath), timeout=1800)
        ctx.add_tlc("sanity:" + what, rb, require_ok=False, count_states=False)
        if rb.ok:
            raise core.MachineryError("corrupted tables (%s) were accepted by PlatformTables" % what)

    # ---------------------------------------------------------------- spec -> code: candidates into the real parser
    index_name = {e["idx"]: e["name"] for e in tables["py_index"]}
    replay_candidates(ctx, cands, index_name)

    # ---------------------------------------------------------------- code -> spec: gcc and cffi per name
    names = sorted(set([e["name"] for e in tables["model"]] + [e["name"] for e in tables["py_index"]] +
                       [a["name"] for a in tables["aliases"]]))
    kinds = {e["name"]: {"f": "float", "j": "complex"}.get(e["kind"], "int") for e in tables["model"]}
    for a in tables["aliases"]:
        kinds[a["name"]] = kinds.get(a["target"], "int")
    g = gcc_measure(ctx, names, kinds)
    c = cffi_measure(ctx, names)
    recs = [{"name": n, "gcc": g[n], "cffi": c[n]} for n in names]
    for n in names:
        ctx.case(("name", n))
    judge(ctx, recs, validate(ctx, recs))
    for rec in recs[:2] + [r_ for r_ in recs if r_["name"] == "uint_fast16_t"]:
        ctx.sample({"name": rec["name"], "gcc": {k: rec["gcc"][k] for k in ("size", "align", "kind", "sgn")},
                    "cffi": [{k: o[k] for k in ("path", "size", "align", "kind", "sgn", "same", "cname")} for o in rec["cffi"]]})
    ctx.cov["rule"] = "distinct = candidate strings given to the real C parser + primitive names measured through 4 paths"
    ctx.cov["exhaustive"] = True        # finite universe, completely enumerated and replayed
    ctx.assumptions += ["gcc with glibc's headers on this machine is the platform compiler; every entry of Platform!Prim "
                        "is compared with it before use",
                        "signedness is demanded of integer types only: cffi presents char/wchar_t/char16_t/char32_t as "
                        "characters (int(ffi.cast('char', -1)) == 255 by design)"]


def replay(ctx, obj):
    rp = obj["replay"]
    ctx.cov["states"] = ctx.cov["transitions"] = 1
    if "candidate" in rp:
        tables = extract_tables()
        replay_candidates(ctx, [(rp["candidate"], rp["index"])], {e["idx"]: e["name"] for e in tables["py_index"]})
    elif "name" in rp:
        n = rp["name"]
        g = gcc_measure(ctx, [n], {})
        c = cffi_measure(ctx, [n])
        recs = [{"name": n, "gcc": g[n], "cffi": c[n]}]
        v = validate(ctx, recs)
        judge(ctx, recs, v)
        print("replayed '%s': %s" % (n, v or "accepted"))
    else:
        run(ctx)


def selftest(ctx):
    names = ["int", "uint_fast16_t", "wchar_t", "long double"]
    g = gcc_measure(ctx, names, {"long double": "float"})
    c = cffi_measure(ctx, names)
    recs = [{"name": n, "gcc": g[n], "cffi": c[n]} for n in names]
    ok = not validate(ctx, recs)
    recs[0]["cffi"][1]["size"] = 8
    recs[1]["cffi"][2]["probes"][0]["acc"] = not recs[1]["cffi"][2]["probes"][0]["acc"]
    recs[2]["cffi"][3]["same"] = False
    recs[3]["gcc"]["align"] = 8
    v = validate(ctx, recs)
    want = {"int": ("cffi:backend", "size"), "uint_fast16_t": ("cffi:abi", "range"), "wchar_t": ("cffi:api", "identity"),
            "long double": ("gcc", "align")}
    for n, w in want.items():
        if w not in v.get(n, []):
            print("selftest: corruption of %s not detected: %s" % (n, v.get(n)))
            ok = False
    ctx.cov["states"] = ctx.cov["transitions"] = 1
    return ok


META = {
    "category": "model_checking",
    "text": "The primitive-type tables are extracted from the working tree at check time (PRIMITIVE_TO_INDEX and PRIM_* "
            "constants, _CFFI_PRIM_* defines, primitive_name[], ENUM_PRIMITIVE_TYPES, ALL_PRIMITIVE_TYPES, common-type "
            "aliases, the if-lines of search_standard_typename) and TLC checks that they are mutually inverse "
            "bijections consistent in kind and signedness with the platform table written from the psABI, and "
            "explores one state per candidate string (every name and every string at edit distance 1 from a standard "
            "_t name): the transcribed search finds exactly the names, with their own index. Every candidate is then "
            "given to the real C type parser, and for every name and alias gcc and four cffi paths (in-line, bare "
            "backend FFI, out-of-line ABI and API modules through realize_c_type) report size, alignment, kind, "
            "signedness, integer range (boundary stores) and ctype identity, validated by TLC against the platform "
            "table (gcc first).",
    "note": "The universe is finite and completely enumerated (exhaustive). Signedness is demanded of integer types "
            "only (cffi presents character types as characters). Multi-word spellings (unsigned long int) belong to C07.",
    "technique": "TLA+ table-consistency laws and exhaustive state-per-string exploration (TLC) on tables extracted from "
                 "the sources + replay into the real parser + TLC validation of gcc and cffi measurements",
    "design_ref": "DESIGN.md §3 C06",
}
