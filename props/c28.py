"""C28 — embedded-library start-up initialises once and never deadlocks (src/cffi/_embedding.h).

Design level : specs/Embedding.tla (PlusCal, one label per shared-memory operation of
               _embedding.h: spin lock on the PyCapsule_Type slot, Py_IsInitialized /
               Py_InitializeEx / PyEval_SaveThread, the CAS-guarded lazily created recursive
               start-up mutex, the `called` flag, _cffi_initialize_python with failing module
               init / failing init code / init code calling extern "Python" functions of its
               own and of the other library, write barrier and publication of
               _cffi_call_python) refines specs/EmbeddingIdeal.tla (the clauses of C28); TLC:
               all interleavings of 2-3 threads over 1-2 libraries per scenario, liveness
               under weak fairness, five broken variants that must be rejected.
Binding      : harness/embed/{lib.c,rt.c}: a C program that #includes the UNMODIFIED
               <repo>/src/cffi/_embedding.h (three times, for three libraries) with every
               primitive redefined as a stub and every plain access to a shared variable
               intercepted (compiler-inserted __tsan_read/write hooks, no sanitizer runtime),
               so that each shared-memory operation parks the calling pthread until the
               scheduler grants it.
               spec -> code: behaviours produced by TLC (simulation of Embedding_Sim.tla) are
               replayed step by step (thread id + label) and the projected state of the real
               variables is compared with the model's after every step;
               code -> spec: random scenarios / schedules (up to 6 threads, 3 libraries);
               all event logs are validated by TLC against EmbeddingIdeal (Trace_Embedding).
               Thorough tier also builds a REAL embedded library pair with
               ffi.embedding_api/embedding_init_code and a multi-threaded C main program and
               validates its event traces the same way.
"""
import copy, json, os, re, shutil, subprocess, sys, sysconfig, time
from concurrent.futures import ThreadPoolExecutor
from harness import core
from harness.embed import driver

LEVEL = "model_checking"

INVS = ["PyInitAtMostOnce", "InitCodeAtMostOncePerLib", "NoEarlyExtern", "ZeroAfterFail",
        "SpinExclusive", "MutexHeld", "GilExclusive"]


def tset(s):
    return "{" + ",".join('"%s"' % c for c in s) + "}"


def cfg(threads, libs, maxcalls=1, self_="", cross="", failc="", failm="", pre=False, variant="faithful",
        spec="SafeSpec", invs=INVS, props=("RefinesIdeal",), deadlock=True):
    lines = ["SPECIFICATION " + spec,
             "CONSTANTS Threads = {%s}" % ",".join(map(str, range(1, threads + 1))),
             '  defaultInitValue = "nolib"',
             "  Libs = " + tset(libs), "  MaxCalls = %d" % maxcalls, "  SelfCalls = " + tset(self_),
             "  CrossCalls = " + tset(cross), "  FailCode = " + tset(failc), "  FailMod = " + tset(failm),
             "  PreInit = " + ("TRUE" if pre else "FALSE"), '  Variant = "%s"' % variant]
    lines += ["INVARIANT " + i for i in invs]
    lines += ["PROPERTY " + p for p in props]
    if not deadlock:
        lines.append("CHECK_DEADLOCK FALSE")
    return "\n".join(lines) + "\n"


def scen_name(sc):
    return "%dthr,libs=%s,calls=%d,self=%s,cross=%s,failc=%s,failm=%s,pre=%d" % (
        sc["threads"], sc["libs"], sc.get("maxcalls", 1), sc.get("self_", "") or "-", sc.get("cross", "") or "-",
        sc.get("failc", "") or "-", sc.get("failm", "") or "-", int(sc.get("pre", False)))


def par(jobs, n):
    """jobs: list of (name, thunk); returns {name: result} preserving exceptions."""
    out = {}
    with ThreadPoolExecutor(n) as ex:
        futs = [(name, ex.submit(th)) for name, th in jobs]
        for name, f in futs:
            out[name] = f.result()
    return out


# ------------------------------------------------------------------------------- design level

def design_jobs(quick):
    """(name, kind, kwargs for cfg, tlc kwargs).  kind: 'ok' must pass; 'abba' must violate NoABBA;
    'variant' must be rejected."""
    J = []
    base2 = dict(threads=2, libs="AB")
    if not quick:     # quick: subsumed by the liveness run below (same invariants and refinement under Spec)
        J.append(("safe(2thr,AB,self=A,failc=B)", "ok", dict(base2, self_="A", failc="B"), {}))
    J.append(("safe(3thr,A,self=A)", "ok", dict(threads=3, libs="A", self_="A"), {}))
    J.append(("safe(2thr,AB,self=B,failm=A,pre)", "ok", dict(base2, self_="B", failm="A", pre=True), {}))
    if not quick:
        J.append(("safe(2thr,A,2calls,failc=A,self=A)", "ok", dict(threads=2, libs="A", maxcalls=2, self_="A", failc="A"), {}))
    J.append(("live(2thr,AB,self=A,failc=B,WF)", "ok",
              dict(base2, self_="A", failc="B", spec="Spec", props=("RefinesIdeal", "EveryCallTerminates")), {}))
    # one-directional cross call: no deadlock, everything holds
    J.append(("cross1(2thr,AB,cross=A,self=B)", "ok", dict(base2, cross="A", self_="B"), {}))
    # both directions: every stuck state is the AB-BA shape; all safety clauses still hold
    J.append(("cross2(2thr,AB,cross=AB,self=A):safety+OnlyABBADeadlocks", "ok",
              dict(base2, cross="AB", self_="A", invs=INVS + ["OnlyABBADeadlocks"], deadlock=False), {}))
    J.append(("cross2(2thr,AB,cross=AB):deadlock reachable", "abba",
              dict(base2, cross="AB", invs=[], props=()), {}))
    if not quick:
        b3 = dict(threads=3, libs="AB")
        J.append(("safe(3thr,AB,self=A,failc=B)", "ok", dict(b3, self_="A", failc="B"), {}))
        J.append(("safe(3thr,AB,self=AB,failm=B,pre)", "ok", dict(b3, self_="AB", failm="B", pre=True), {}))
        J.append(("safe(3thr,AB,cross=A,self=B,failc=A)", "ok", dict(b3, cross="A", self_="B", failc="A"), {}))
        J.append(("safe(2thr,AB,2calls,self=A,failc=B)", "ok", dict(base2, maxcalls=2, self_="A", failc="B"), {}))
        J.append(("cross2(3thr,AB,cross=AB):safety+OnlyABBADeadlocks", "ok",
                  dict(b3, cross="AB", invs=INVS + ["OnlyABBADeadlocks"], deadlock=False), {}))
        J.append(("live(3thr,A,self=A,WF)", "ok",
                  dict(threads=3, libs="A", self_="A", spec="Spec", props=("RefinesIdeal", "EveryCallTerminates")), {}))
        J.append(("live(2thr,AB,cross=AB,WF):TerminatesOrABBA", "ok",
                  dict(base2, cross="AB", spec="Spec", props=("TerminatesOrABBA",), invs=[], deadlock=False), {}))
        J.append(("live(2thr,AB,cross=A,self=AB,failc=A,WF)", "ok",
                  dict(base2, cross="A", self_="AB", failc="A", spec="Spec",
                       props=("RefinesIdeal", "EveryCallTerminates")), {}))
    for v, kw in (("earlypublish", dict(threads=2, libs="A")), ("nocalled", dict(threads=2, libs="A")),
                  ("unlockedpy", dict(threads=2, libs="AB")), ("nozero", dict(threads=2, libs="A", failc="A")),
                  ("nonrecursive", dict(threads=1, libs="A", self_="A"))):
        if quick and v in ("nozero", "nonrecursive"):
            continue
        J.append(("sanity:" + v, "variant", dict(kw, variant=v), {}))
    return J


def run_design(ctx):
    quick = ctx.quick
    jobs = design_jobs(quick)

    def mk(name, kind, ckw, tkw):
        def th():
            ckw2 = dict(ckw)
            if kind == "abba":
                ckw2["invs"] = ["NoABBA"]
            big = ckw2["threads"] >= 3 and len(ckw2["libs"]) >= 2
            return core.tlc("Embedding", cfg_text=cfg(**ckw2), workers=8 if big else 2, coverage=(kind == "ok" and not big),
                            timeout=3000, **tkw)
        return name, th
    res = par([mk(*j) for j in jobs], 3 if not quick else 8)
    labels_seen = {}
    for name, kind, ckw, _ in jobs:
        r = res[name]
        if kind == "ok":
            ctx.add_tlc(name, r)
            for a, (d, t) in r.coverage().items():
                labels_seen[a] = labels_seen.get(a, 0) + t
        elif kind == "abba":
            ctx.add_tlc(name, r, require_ok=False, count_states=False)
            if "NoABBA" not in r.invariant_violated:
                raise core.MachineryError("the model with CrossCalls=Libs did not reach the AB-BA state:\n" + r.out[-1500:])
        else:
            ctx.add_tlc(name, r, require_ok=False, count_states=False)
            rejected = (not r.ok) and ("is violated" in r.out or r.deadlock or "violated" in r.out)
            if not rejected:
                raise core.MachineryError("broken variant %s of the model was not rejected by TLC:\n%s" % (name, r.out[-1500:]))
    missing = [l for l in driver.M2H if labels_seen.get(l, 0) == 0]
    if missing:
        raise core.MachineryError("labels of Embedding.tla never taken in the design-level runs (vacuous): %s" % missing)


# ------------------------------------------------------------------------------- spec -> code

# (behaviours per simulation worker, simulation workers, random scenarios)
SIZES = {"quick": (120, 1, 1500), "thorough": (600, 2, 40000)}

SIM_SCEN = [
    dict(threads=2, libs="AB", self_="A", failc="B"),
    dict(threads=3, libs="AB", self_="A", failc="B"),
    dict(threads=3, libs="A", self_="A", maxcalls=2),
    dict(threads=2, libs="AB", cross="AB", self_="A"),
    dict(threads=3, libs="AB", cross="A", self_="B", failm="B", pre=True),
    dict(threads=2, libs="AB", maxcalls=2, self_="AB", failc="A"),
    dict(threads=3, libs="AB", cross="AB", failc="B"),
    dict(threads=2, libs="A", failm="A", maxcalls=2),
]


def simulate(ctx, sc, num, seed, workers):
    text = cfg(sc["threads"], sc["libs"], sc.get("maxcalls", 1), sc.get("self_", ""), sc.get("cross", ""),
               sc.get("failc", ""), sc.get("failm", ""), sc.get("pre", False), spec="SimSpec",
               invs=["PrintFinal"], props=(), deadlock=False)
    r = core.tlc("Embedding_Sim", cfg_text=text, workers=workers, simulate="num=%d" % num, depth=600, seed=seed, timeout=3000)
    behs = []
    for tup in core.tla_tuples(r.out, "BEH"):
        s = tup[0].strip()
        behs.append(json.loads(json.loads(s)))     # TLC prints the JSON text as a TLA+ string
    return r, behs


_VARLINE = re.compile(r"^/\\ (\w+) = (.*)$")
_PROJ_VARS = ("spin", "pyinit", "gil", "mark", "mlock", "ready", "mrec", "mowner", "mdepth", "called", "org", "fast", "L")


def _node_vars(text, cache={}):
    from harness import tlaval
    out = {}
    for ln in text.split("\n"):
        m = _VARLINE.match(ln)
        if m and m.group(1) in _PROJ_VARS:
            out[m.group(1)] = tlaval.parse_value(m.group(2))
    return out


def graph_behaviours(ctx, sc, max_walks):
    """Complete state graph of a small configuration (TLC -dump); walks from the initial state
    that greedily cover every transition (spin self-loops included).  Returns (TLC result,
    behaviours in the format of simulate(), number of transitions, number covered)."""
    from collections import deque
    from harness import tlaval
    dump = os.path.join(ctx.tmp, "graph_%dthr_%s" % (sc["threads"], sc["libs"]))
    text = cfg(sc["threads"], sc["libs"], sc.get("maxcalls", 1), sc.get("self_", ""), sc.get("cross", ""),
               sc.get("failc", ""), sc.get("failm", ""), sc.get("pre", False), invs=[], props=(), deadlock=False)
    r = core.tlc("Embedding", cfg_text=text, workers=2, dump=dump, timeout=3000)
    g = tlaval.load_dot(dump + ".dot", parse=False)
    out = {n: [e for e in g.out.get(n, []) if e[0] != "Terminating"] for n in g.states}
    uncovered = {(n, i) for n, es in out.items() for i in range(len(es))}
    total = len(uncovered)
    libs = sc["libs"]
    vars_of = {}

    def nv(n):
        if n not in vars_of:
            vars_of[n] = _node_vars(g.states[n])
        return vars_of[n]

    def proj(n):
        v = nv(n)
        return [v["spin"], v["pyinit"], v["gil"],
                [[v[k][l] for k in ("mark", "mlock", "ready", "mrec", "mowner", "mdepth", "called", "org", "fast")]
                 for l in libs]]

    def path_to_uncovered(src):
        """shortest edge path from src to a node that has an uncovered out-edge"""
        prev, dq = {src: None}, deque([src])
        while dq:
            n = dq.popleft()
            if any((n, i) in uncovered for i in range(len(out[n]))):
                path = []
                while prev[n] is not None:
                    p, i = prev[n]
                    path.append((p, i))
                    n = p
                return path[::-1]
            for i, e in enumerate(out[n]):
                if e[2] not in prev:
                    prev[e[2]] = (n, i)
                    dq.append(e[2])
        return None
    behs = []
    rng = ctx.rng
    while uncovered and len(behs) < max_walks:
        cur, beh, spins = g.init[0], [], 0
        while len(beh) < 600:
            es = out[cur]
            if not es:
                break
            unc = [i for i in range(len(es)) if (cur, i) in uncovered]
            if unc:
                i = rng.choice(unc)
            else:
                pth = path_to_uncovered(cur)
                if pth:
                    i = pth[0][1]
                else:
                    fw = [k for k in range(len(es)) if es[k][2] != cur]      # finish the walk
                    if not fw:
                        break
                    i = rng.choice(fw)
            uncovered.discard((cur, i))
            name, args, dst = es[i]
            t = args[0]
            beh.append([t, name, nv(dst)["L"][t - 1], proj(dst)])
            cur = dst
        behs.append(beh)
    return r, behs, total, total - len(uncovered)


def beh_to_scenario(sc, beh):
    nthr, libs = sc["threads"], sc["libs"]
    plan = ["" for _ in range(nthr)]
    count = [0] * nthr
    for t, label, lib, _proj in beh:
        if label == "t_loop" and count[t - 1] < sc.get("maxcalls", 1):
            count[t - 1] += 1
            plan[t - 1] += lib
    return {"nlibs": len(libs), "plan": plan, "self": sc.get("self_", ""), "cross": sc.get("cross", ""),
            "failc": sc.get("failc", ""), "failm": sc.get("failm", ""), "pre": int(sc.get("pre", False)),
            "strategy": 0, "seed": 1, "budget": 5000, "coro": 0,      # real pthreads
            "sched": [(t, driver.M2H[label]) for t, label, _l, _p in beh]}


def proj_model(p, libs):
    spin, pyinit, gil, per = p
    out = [(-1 if spin == "free" else libs.index(spin)), int(pyinit), gil]
    for x in per:
        mark, mlock, ready, mrec, mowner, mdepth, called, org, fast = x
        out.append([int(mark), mlock, int(ready), int(mrec), mowner, mdepth, int(called), int(org == "real"), int(fast)])
    return out


def compare_replay(sc, beh, d):
    """First difference between the TLC behaviour and what the real code did, or None."""
    if d.get("div"):
        i, t, want, got = d["div"]
        return "step %d: model lets thread %d do %s, the code is at %s" % (i, t, want, got)
    steps = d["steps"]
    if len(steps) < len(beh):
        return "the code stopped (%s) after %d of %d steps" % (d["status"], len(steps), len(beh))
    nl = len(sc["libs"])
    for i, (t, label, _l, p) in enumerate(beh):
        if steps[i][0] != t or steps[i][1] != driver.M2H[label]:
            return "step %d: model %d.%s, code %d.%s" % (i, t, label, steps[i][0], steps[i][1])
        want = proj_model(p, sc["libs"])
        got = d["states"][i][:3] + d["states"][i][3:3 + nl]
        if want != got:
            return "after step %d (%d.%s): projected state of the code %r, model %r" % (i, t, label, got, want)
    if len(steps) != len(beh):
        return "the code took %d more steps after the end of the model's behaviour" % (len(steps) - len(beh))
    return None


# ------------------------------------------------------------------------------- code -> spec

def random_scenario(rng, quick):
    nlibs = rng.choice([1, 2, 2, 2, 3])
    tags = driver.TAGS[:nlibs]
    nthr = rng.choice([1, 2, 2, 3, 3, 3, 4, 5, 6])
    plan = ["".join(rng.choice(tags) for _ in range(rng.choice([1, 1, 1, 2, 3]))) for _ in range(nthr)]

    def sub(p):
        return "".join(t for t in tags if rng.random() < p)
    cross = ""
    if nlibs > 1:
        k = rng.random()
        if k < 0.45:
            cross = rng.choice(tags)                       # one library calls into the next: no cycle
        elif k < 0.60 and nlibs == 3:
            cross = "".join(rng.sample(tags, 2))           # chain, no cycle
        elif k < 0.72:
            cross = tags                                   # ring of init codes calling each other
    return {"nlibs": nlibs, "plan": plan, "self": sub(0.5), "cross": cross, "failc": sub(0.3),
            "failm": sub(0.15), "pre": int(rng.random() < 0.2), "strategy": rng.choice([0, 0, 1, 2]),
            "seed": rng.randrange(1, 2 ** 31), "budget": 20000, "sched": [],
            "coro": int(rng.random() < 0.85)}      # 15% of the runs on real pthreads, the rest as coroutines


def has_cross_cycle(sc):
    return sc["nlibs"] > 1 and len(set(sc.get("cross", ""))) == sc["nlibs"]


CLAUSE = {
    "pyinit": "Python was initialised more than once",
    "initstart": "a library's init code was started more than once",
    "initend": "harness: init code end without start",
    "initabort": "harness: initialisation aborted after the init code had started",
    "body": "an extern \"Python\" body ran before the library's initialisation had finished, in a thread other than the initialiser",
    "callend": "a call returned a non-zero result after the library's initialisation had failed",
    "callbegin": "harness: malformed call event",
    "unfinished": "a call never returned",
}


def validate(ctx, traces, name="Trace_Embedding"):
    """TLC validates all traces against EmbeddingIdeal; returns [(verdict, pos)] per trace."""
    out = []
    for i in range(0, len(traces), 4000):
        chunk = traces[i:i + 4000]
        tups = core.tlc_verdicts(ctx, "Trace_Embedding", chunk, name=name)
        verdicts = {}
        for tup in tups:
            verdicts[int(tup[0])] = (core.unq(tup[1]), int(tup[2]))
        if len(verdicts) != len(chunk):
            raise core.MachineryError("trace validation incomplete: %d verdicts for %d traces" % (len(verdicts), len(chunk)))
        out += [verdicts[k] for k in range(1, len(chunk) + 1)]
        ctx.validated(len(chunk))
    return out


def judge(ctx, scen, results, verdicts, kind):
    """Verdicts come from the ideal (Trace_Embedding); the key names the failing class."""
    nviol = 0
    for sc, d, (v, pos) in zip(scen, results, verdicts):
        if v == "ok":
            if d["status"] != "done":
                raise core.MachineryError("run %s stopped (%s) but its trace has no open call" % (d["id"], d["status"]))
            continue
        if v == "unfinished":
            if d["status"] == "done":
                raise core.MachineryError("harness reported 'done' with an open call: %r" % d["events"][-5:])
            key = driver.classify_stuck(d)
            what = CLAUSE[v] + " (%s)" % key
        else:
            key = "%s:%s" % (v, kind)
            what = CLAUSE.get(v, v)
        rec = dict(sc)
        rec["sched"] = [(s[0], s[1]) for s in d["steps"]]
        if ctx.violation(key, what, {"kind": kind, "scenario": rec, "events": d["events"], "status": d["status"],
                                     "verdict": v, "failing_event_index": pos, "threads": d.get("threads"),
                                     "libs": d.get("libs")}):
            nviol += 1
    return nviol


def check_machinery(ctx, scen, results, kind):
    """A run that crashed (e.g. unbounded recursion of the start-up code) or made no progress for
    90 s without reaching a yield point is a failure of the code under test, reported with the
    deterministic scenario as its replay; the events of such a run are lost.  Returns the runs
    that produced a log."""
    keep = []
    for sc, d in zip(scen, results):
        if d["status"] == "badinput":
            raise core.MachineryError("embed_harness rejected its input for run %s" % d["id"])
        if d["status"] in ("crash", "hang"):
            key = "%s:%s" % (d["status"], "signal=%s" % d.get("signal") if d["status"] == "crash" else "no-yield-for-90s")
            ctx.violation(key, "the start-up code %s in the scheduling harness" % (
                "crashed (signal %s)" % d.get("signal") if d["status"] == "crash" else "looped without reaching any operation"),
                {"kind": kind, "scenario": dict(sc, sched=[list(x) for x in sc.get("sched", [])]), "events": [],
                 "status": d["status"], "verdict": d["status"]})
            continue
        keep.append((sc, d))
    return keep


def run(ctx):
    quick = ctx.quick
    t0 = time.time()
    exe, symtab = driver.build(ctx.tmp)
    ctx.cov["harness_build_s"] = round(time.time() - t0, 2)

    # ---------------------------------------------------------------- design level (TLC) and behaviours
    nsim, simworkers, nrand = SIZES[ctx.tier]
    simseed = ctx.rng.randrange(1, 2 ** 31)
    scens = SIM_SCEN[:4] if quick else SIM_SCEN
    gsc = dict(threads=2, libs="A", self_="A")
    e2e_plan = None
    if not quick:
        from harness.embed import e2e
        e2e_plan = e2e.plan(ctx.rng)
    with ThreadPoolExecutor(3) as ex:
        fe = ex.submit(e2e.run, ctx, e2e_plan) if e2e_plan else None
        fd = ex.submit(run_design, ctx)
        fs = ex.submit(lambda: par([("sim%d" % i, (lambda sc=sc, i=i: simulate(ctx, sc, nsim, simseed + i, simworkers)))
                                    for i, sc in enumerate(scens)], 4 if quick else 3))
        # meanwhile, in this thread (it owns ctx.rng): the complete graph of a small configuration
        gr, gbehs, gtotal, gcovered = graph_behaviours(ctx, gsc, 60 if quick else 100000)
        fd.result()
        sims = fs.result()
        e2e_out = fe.result() if fe else None
    ctx.add_tlc("dump(%s)" % scen_name(gsc), gr, count_states=False)
    ctx.cov["graph_transitions"] = {"config": scen_name(gsc), "total": gtotal, "replayed_on_the_code": gcovered}
    if not quick and gcovered != gtotal:
        raise core.MachineryError("graph walks did not cover every transition (%d of %d)" % (gcovered, gtotal))

    # ---------------------------------------------------------------- spec -> code
    rscen, rbeh, rsc = [], [], []
    for beh in gbehs:
        rscen.append(beh_to_scenario(gsc, beh))
        rbeh.append(beh)
        rsc.append(gsc)
    for i, sc in enumerate(scens):
        r, behs = sims["sim%d" % i]
        ctx.add_tlc("simulate(%s)" % scen_name(sc), r, count_states=False)
        if not behs:
            raise core.MachineryError("TLC simulation produced no behaviour for %s:\n%s" % (scen_name(sc), r.out[-1500:]))
        for beh in behs:
            rscen.append(beh_to_scenario(sc, beh))
            rbeh.append(beh)
            rsc.append(sc)
    if not quick:       # bulk: real pthreads for every 4th replay, coroutines (identical runs) for the rest
        for k, x in enumerate(rscen):
            x["coro"] = int(k % 4 != 0)
    results = driver.run_batch(exe, symtab, rscen, nproc=8 if quick else 12)
    divergences, edges = [], set()
    for sc, beh, d in zip(rsc, rbeh, results):
        ctx.case(("replay", scen_name(sc), tuple((t, l) for t, l, _a, _b in beh)))
        div = compare_replay(sc, beh, d) if d["status"] not in ("crash", "hang") else "the code %s" % d["status"]
        if div:
            divergences.append("%s: %s" % (scen_name(sc), div))
        for t, l, _a, _b in beh:
            edges.add(l)
    ctx.sample({"kind": "TLC behaviour replayed on the real _embedding.h", "scenario": scen_name(rsc[0]),
                "schedule": [[t, l] for t, l, _a, _b in rbeh[0]], "events": results[0].get("events")}, limit=1)
    kept1 = check_machinery(ctx, rscen, results, "tlc-replay")

    # ---------------------------------------------------------------- code -> spec (random schedules)
    fscen = [random_scenario(ctx.rng, quick) for _ in range(nrand)]
    fres = driver.run_batch(exe, symtab, fscen, nproc=8 if quick else 12)
    kept2 = check_machinery(ctx, fscen, fres, "random")
    nsteps = 0
    for sc, d in kept2:
        ctx.case(("random", d["status"], tuple((s[0], s[1]) for s in d["steps"][:400])))
        nsteps += d["nsteps"]
    if kept2:
        ctx.sample({"kind": "random schedule on the real _embedding.h",
                    "scenario": {k: v for k, v in kept2[0][0].items() if k != "sched"},
                    "status": kept2[0][1]["status"], "events": kept2[0][1]["events"]}, limit=2)
    verdicts = validate(ctx, [driver.events(d) for _sc, d in kept1 + kept2])
    judge(ctx, [x[0] for x in kept1], [x[1] for x in kept1], verdicts[:len(kept1)], "tlc-replay")
    judge(ctx, [x[0] for x in kept2], [x[1] for x in kept2], verdicts[len(kept1):], "random")
    all_res = [x[1] for x in kept1 + kept2]

    # notes of the runtime (assertion failures of the header, unmodelled accesses) are divergences
    notes = {}
    for d in all_res:
        for n in d.get("notes", []):
            notes[n] = notes.get(n, 0) + 1
    for n, c in sorted(notes.items())[:5]:
        divergences.append("runtime note (%d runs): %s" % (c, n))

    # ---------------------------------------------------------------- real end-to-end run
    if e2e_out:
        real_e2e(ctx, e2e_out)

    ctx.cov["model_divergences"] = divergences[:10]
    ctx.cov["model_divergence_count"] = len(divergences)
    ctx.cov["labels_replayed"] = sorted(edges)
    ctx.cov["random_schedule_steps"] = nsteps
    ctx.cov["stuck_runs"] = {}
    for d in all_res:
        if d["status"] != "done":
            k = driver.classify_stuck(d)
            ctx.cov["stuck_runs"][k] = ctx.cov["stuck_runs"].get(k, 0) + 1
    if divergences:
        print("NOTE C28: %d replays left the implementation model (first: %s); verdicts come from the ideal"
              % (len(divergences), divergences[0]))
    ctx.cov["rule"] = ("distinct = distinct (scenario, step sequence) executions of the real header under the "
                       "scheduler; every one has >= 1 thread making a first call; non-trivial = all (the start-up "
                       "path is taken in every run)")
    ctx.cov["exhaustive"] = False
    ctx.assumptions += [
        "sequential consistency: the scheduler runs one thread at a time, so weak-memory reorderings "
        "(the reason for cffi_write_barrier) are not explored",
        "libpython is replaced by stubs: Py_InitializeEx leaves the caller holding the GIL, PyGILState_Ensure "
        "blocks while another thread holds it, a cffi call from Python code releases the GIL around the C call",
        "Python >= 3.12 branch of the spin lock (PyCapsule_Type.tp_as_buffer), pthread branch of the mutex",
        "the init code's nested calls are made at fixed points (own library first, then the other one); an init "
        "failure happens either in the module init function or at the end of the init code",
    ]


# ------------------------------------------------------------------------------- real end-to-end

def real_e2e(ctx, e2e_out):
    traces, metas, skipped = e2e_out
    if skipped:
        ctx.assumptions.append(skipped)
        return
    verdicts = validate(ctx, traces, name="Trace_Embedding(real)")
    for m, evs, (v, pos) in zip(metas, traces, verdicts):
        ctx.case(("e2e", json.dumps(m, sort_keys=True), len(evs)))
        if v != "ok":
            key = "e2e:%s:%s" % (v, m["kind"])
            if v == "unfinished" and m.get("stall_reported") and e2e_cross_cycle(evs):
                key = "deadlock:cross-init-cycle"
            ctx.violation(key, CLAUSE.get(v, v) + " (real embedded library)", {"kind": "e2e", "meta": m, "events": evs,
                                                                              "verdict": v, "failing_event_index": pos})
    ctx.cov["e2e_runs"] = len(traces)


def e2e_cross_cycle(evs):
    """The stalled threads are initialisers inside their own init code whose last action was to
    enter the other library, whose init code is running in the other stalled thread."""
    running, lastev = {}, {}
    for e in evs:
        if e["ev"] == "initstart":
            running[e["l"]] = e["t"]
        elif e["ev"] in ("initend", "initabort"):
            running.pop(e["l"], None)
        lastev[e["t"]] = e
    cyc = [l for l, t in running.items()
           if lastev[t]["ev"] == "callbegin" and lastev[t]["l"] != l and running.get(lastev[t]["l"]) not in (None, t)]
    return len(cyc) >= 2


# ------------------------------------------------------------------------------- replay / selftest

def replay(ctx, obj):
    rp = obj["replay"]
    ctx.cov["states"] = 1
    ctx.cov["transitions"] = 1
    if rp["kind"] == "e2e":
        v = validate(ctx, [rp["events"]])[0]
        print("re-validated the recorded end-to-end trace: %s" % ("accepted" if v[0] == "ok" else "rejected (%s)" % v[0]))
        if v[0] != "ok":
            ctx.violation(obj["key"], CLAUSE.get(v[0], v[0]), rp)
        return
    exe, symtab = driver.build(ctx.tmp)
    sc = dict(rp["scenario"])
    sc["sched"] = [tuple(x) for x in sc["sched"]]
    d = driver.run_batch(exe, symtab, [sc])[0]
    if not check_machinery(ctx, [sc], [d], rp["kind"]):
        print("re-executed the recorded scenario on the real header: %s" % d["status"])
        return
    v = validate(ctx, [driver.events(d)])
    n = judge(ctx, [sc], [d], v, rp["kind"])
    print("re-executed the recorded schedule on the real header: status=%s verdict=%s%s" % (
        d["status"], v[0][0], "" if d.get("div") is None else " (schedule diverged at %r)" % (d["div"],)))


def mutated_repo(ctx, edits):
    """A copy of the two headers with textual edits (selftest only; the repository is untouched)."""
    root = os.path.join(ctx.tmp, "mut%d" % len(os.listdir(ctx.tmp)))
    dst = os.path.join(root, "src", "cffi")
    os.makedirs(dst)
    for n in ("_embedding.h", "_cffi_errors.h"):
        shutil.copy(os.path.join(core.REPO, "src", "cffi", n), dst)
    p = os.path.join(dst, "_embedding.h")
    s = open(p).read()
    for a, b in edits:
        if a not in s:
            raise core.MachineryError("selftest: text to mutate not found: %r" % a)
        s = s.replace(a, b, 1)
    open(p, "w").write(s)
    return root


def selftest(ctx):
    """(1) corrupt one field of a recorded trace -> rejected; (2) compile the harness against a
    copy of the header with the `called` test removed -> the ideal rejects the traces."""
    ctx.cov["states"] = 1
    exe, symtab = driver.build(ctx.tmp)
    sc = {"nlibs": 2, "plan": ["A", "A", "B"], "self": "A", "cross": "", "failc": "A", "failm": "", "pre": 0,
          "strategy": 0, "seed": 7, "budget": 50000, "sched": []}
    d = driver.run_batch(exe, symtab, [sc])[0]
    good = driver.events(d)
    bad = copy.deepcopy(good)
    for e in bad:
        if e["ev"] == "callend" and e["r"] == "zero":
            e["r"] = "other"
            break
    bad2 = copy.deepcopy(good)
    k = [i for i, e in enumerate(bad2) if e["ev"] == "pyinit"][0]
    bad2.insert(k + 1, dict(bad2[k], t=2))
    v = validate(ctx, [good, bad, bad2])
    ok1 = v[0][0] == "ok" and v[1][0] == "callend" and v[2][0] == "pyinit"
    root = mutated_repo(ctx, [("if (!called) {", "if (1) {")])
    sub = os.path.join(ctx.tmp, "mutbuild")
    os.makedirs(sub)
    exe2, symtab2 = driver.build(sub, repo=root)
    scs = [dict(sc, failc="", seed=s, strategy=s % 3) for s in range(1, 40)]
    res = driver.run_batch(exe2, symtab2, scs)
    v2 = validate(ctx, [driver.events(x) for x in res])
    ok2 = any(x[0] == "initstart" for x in v2)
    print("selftest: corrupted traces rejected=%s; header without the `called` test rejected=%s" % (ok1, ok2))
    return ok1 and ok2


META = {
    "category": "model_checking",
    "text": "TLC explores every interleaving of 2-3 threads making first calls into 1-2 embedded libraries of a "
            "PlusCal model with one label per shared-memory operation of _embedding.h (spin lock on the PyCapsule_Type "
            "slot, Py_InitializeEx, CAS-guarded lazy recursive mutex, `called` flag, module init and init code that may "
            "fail or call back into its own or the other library, write barrier, publication of _cffi_call_python) and "
            "checks that it refines the property machine EmbeddingIdeal (Python initialised once, init code once per "
            "library, no early extern \"Python\" body, zeroed result after failed init) and that every call returns "
            "under weak fairness; TLC behaviours are replayed step by step on a C harness that #includes the unmodified "
            "header with all primitives and shared-variable accesses intercepted (state compared after every step), "
            "random schedules with up to 6 threads and 3 libraries are run on the same harness, and TLC validates every "
            "recorded event trace against the property machine; the thorough tier adds event traces of real "
            "embedded libraries built with ffi.embedding_api and driven by a multi-threaded C program.",
    "note": "Trusted: TLC, gcc's -fsanitize=thread instrumentation pass (used only to obtain a callback before each "
            "memory access; no sanitizer runtime), the stub model of libpython's GIL. Sequentially consistent "
            "interleavings only. Known finding: two libraries whose init codes call each other from two threads "
            "dead-lock on each other's start-up mutex (reproduced on the real header and with real libraries).",
    "technique": "TLA+/PlusCal refinement (TLC) + replay of TLC behaviours on the unmodified header under a "
                 "deterministic pthread scheduler + TLC trace validation",
    "design_ref": "DESIGN.md §3 C28, Appendix A",
}
