"""C20 — ffi.new zero-fills and initializes exactly like assignment; flexible-array sizing.

Design level : specs/NewInitIdeal.tla gives the meaning of an initializer *pointwise and without
               order* (a set of byte / bit claims; a byte of the new object is the claimed value
               or zero; the allocation must contain every claim); specs/NewInit.tla transcribes
               direct_newp, the optvarsize pre-pass (convert_struct_from_object /
               convert_vfield_from_object / add_varsize_length / get_new_array_length) and the
               sequential write pass (convert_from_object, convert_array_from_object, bit-field
               read-modify-write).  A bytes/str initializer is a sequence of CHARACTERS (code points); the
               ideal (StrUnits) says how many array items it takes - at width 2 a code point above U+FFFF
               takes a surrogate pair - and the model transcribes the counter (_my_PyUnicode_SizeAsChar16,
               used by the sizing pass and by the bound check) separately from the writer
               (_my_PyUnicode_AsChar16); str initializers of char16_t arrays range over one-unit and two-unit
               code points incl. both sides of the boundary (U+FFFF, U+10000).
               specs/MC_NewInit.tla: 18 shapes (nested, union, anonymous union,
               bit-fields, flexible byte / char16_t arrays, nested var-sized struct, arrays, char16_t[], char *)
               x all well-formed initializer trees of depth <= 2 / <= 2 array items (3 / 3 in the thorough tier): the model
               accepts them, never writes outside the allocation, allocates exactly
               max(sizeof, extent of the claims), produces the ideal bytes, and new-with-init equals
               new-then-assign.  Six broken variants must be rejected (incl. "pair-above-10000": the unit
               counter takes U+10000 for a one-unit character).
               The CT_WITH_VAR_ARRAY flag is modelled as the type system computes it: in API mode nested
               struct types are lazy and are forced while the outer type is completed (VarFlag);
               variant "noforce-when-size-known" is rejected.
Binding      : spec -> code: every TLC state (shape, initializer, type history) is rendered as a cdef type and a
               Python initializer and executed - the API-mode histories in compiled out-of-line modules
               whose outer struct is used first; code -> spec: seeded random aggregate types
               (bit-fields, unions, anonymous members, nested arrays, flexible arrays of
               prims/chars/structs, nested var-sized structs) x random nested initializers
               (list, tuple, dict, bytes/str, cdata copies, integer lengths), in-line and in compiled
               API-mode modules (var-sized structs nested as last member, typedefs), plus a systematic sweep:
               every encoding-boundary code point x every place a bytes/str initializes an array of
               char16_t / wchar_t / char (open, exactly filled, with room, flexible member by position / name,
               nested flexible member, member followed by others, one unit too long).  For every case:
               ffi.buffer of ffi.new(T, init), of ffi.new(T[, lengths]) followed by p[0] = init,
               ffi.sizeof(p[0]) and the size direct_newp asks the allocator for
               (ffi.new_allocator).  TLC judges every record against the ideal (Trace_NewInit).
"""
import importlib, os, sys
from harness import core, tlaval
from harness.mem2_common import batch_verdicts, tlc_many, cfg_text, printed_tuple
from harness import mem2_newinit as mn
from harness.mem2_child import run_child

LEVEL = "model_checking"

SHAPE_NAMES = ["S1", "S2", "S3", "S4", "S5", "S5w", "S6", "S7", "S8", "UN", "A1", "A2", "A3", "A4", "A5", "A6", "P1", "PC"]
INVS = ["WellFormed", "ClaimsDisjoint", "FlagIsStructural", "Accepts", "NoOverflow", "Fits", "AllocExact", "BytesAsIdeal", "LawNewAssign"]

VARIANTS = ("nozero", "noplus1", "unionall", "nodictprepass", "noforce-when-size-known", "pair-above-10000")
SANITY_SHAPES = {"pair-above-10000": ["S5w", "A4", "A6"]}       # default: S3 S5 S6 S7 S8 A5
CLAUSE = {
    "new.raised": "ffi.new raised on a well-formed initializer",
    "new.fits": "the allocation does not contain everything the initializer (items or a length) claims",
    "new.sizeof": "ffi.sizeof(p[0]) does not report the allocated size",
    "new.bytes": "ffi.new(T, init) is not zero except where init writes / init wrote other bytes than "
                 "the sequence, dict, union-first-member or string rules determine",
    "new.law": "ffi.new(T, init) and ffi.new(T); p[0] = init leave different bytes",
}


def mc_cfg(variant, depth, shapes, invs, kmax=2, combos="min"):
    return cfg_text("Spec", {"Variant": variant, "Depth": depth, "KMax": kmax, "ShapeNames": set(shapes), "Combos": combos,
                             "Pool": {3, 772} if kmax == 2 else {3, 772, 65535}}, invs)


def shapes_py():
    P, A, G = mn.Prim, mn.Arr, mn.Agg
    U8, U16, C16, CH = P("unsigned char"), P("unsigned short"), P("char16_t"), P("char")
    SIN = G("SIN", False, [("x", U8, None), ("y", U8, None)])
    UN = G("UN", True, [("w", U16, None), ("b", A(U8, 2), None)])
    S5 = G("S5", False, [("n", U8, None), ("tail", A(U8, None), None)])
    S6 = G("S6", False, [("k", U8, None), ("inner", S5, None)])
    return {
        "S8": G("S8", False, [("j", U8, None), ("mid", S6, None)]),
        "S1": G("S1", False, [("a", U8, None), ("b", U16, None), ("c", A(U8, 2), None)]),
        "S2": G("S2", False, [("a", U8, None), ("in", SIN, None), ("z", U8, None)]),
        "S3": G("S3", False, [("t", U8, None), ("u", UN, None)]),
        "S4": G("S4", False, [("a", U8, 3), ("b", U8, 5), ("c", U8, 2), ("d", U8, None)]),
        "S5": S5,
        "S5w": G("S5w", False, [("n", U8, None), ("w", A(C16, None), None)]),
        "S6": S6,
        "S7": G("S7", False, [("a", U8, None),
                              ("", G(None, True, [("p", U8, None), ("q", U16, None)]), None), ("z", U8, None)]),
        "UN": UN, "A1": A(U8, 3), "A2": A(U16, None), "A3": A(SIN, 2), "A4": A(C16, 3), "A5": A(CH, None),
        "A6": A(C16, None),
        "P1": U16, "PC": CH,
    }


def norm(x):
    """TLC value -> JSON-like"""
    if isinstance(x, tuple):
        return [norm(y) for y in x]
    if isinstance(x, dict):
        return {k: norm(v) for k, v in x.items()}
    return x


def without_names(r):
    if isinstance(r, dict):
        return {k: without_names(v) for k, v in r.items() if k != "cn"}
    if isinstance(r, list):
        return [without_names(x) for x in r]
    return r


def render(lab, t, init):
    """Python initializer for the specification's initializer tree"""
    k = init["k"]
    if k == "leaf":
        x = int.from_bytes(bytes(init["b"]), "little")
        return {"char": bytes([x & 255]), "u16": chr(x), "u32": chr(x)}.get(t.kind, x)
    if k == "bits":
        return sum(b << i for i, b in enumerate(init["b"]))
    if k == "len":
        return init["n"]
    if k == "str":
        return bytes(init["b"]) if init["n"] == 1 else "".join(map(chr, init["b"]))
    if k == "copy":
        cd = lab.ffi.new(lab.cname(t) + ("*" if isinstance(t, mn.Agg) else ""))
        lab.ffi.buffer(cd)[:] = bytes(init["b"])
        lab.keep.append(cd)
        return cd[0] if isinstance(t, mn.Agg) else cd
    if k == "seq":
        if isinstance(t, mn.Arr):
            return [render(lab, t.item, it) for it in init["items"]]
        ctor = [f for f in lab.flatten(t) if not f[3]]
        return [render(lab, f[1], it) for f, it in zip(ctor, init["items"])]
    if k == "dict":
        flat = {f[0]: f for f in lab.flatten(t)}
        return {e["name"]: render(lab, flat[e["name"]][1], e["v"]) for e in init["items"]}
    raise core.MachineryError("cannot render initializer kind %r" % k)


def design_level(ctx):
    depth = 2 if ctx.quick else 3
    combos = "min" if ctx.quick else "all"
    jobs = [("MC_NewInit(18 shapes,depth<=%d,%s type histories)" % (depth, combos),
             dict(module="MC_NewInit", cfg_text=mc_cfg("faithful", depth, SHAPE_NAMES, INVS, kmax=depth, combos=combos),
                  workers=6, timeout=3000))]
    if ctx.quick:        # the quick bound is the bound whose states are executed: the same run dumps them
        jobs[0][1]["dump"] = os.path.join(ctx.tmp, "newinit_states")
    for v in VARIANTS:
        jobs.append(("sanity:" + v, dict(module="MC_NewInit", workers=2,
                                         cfg_text=mc_cfg(v, 2, SANITY_SHAPES.get(v, ["S3", "S5", "S6", "S7", "S8", "A5"]),
                                                         INVS))))
    res = tlc_many(jobs, par=7)
    for name, _kw in jobs:
        ctx.add_tlc(name, res[name], require_ok=name.startswith("MC_"), count_states=name.startswith("MC_"))
    ctx.cov["sanity_rejected_by"] = {}
    for v in VARIANTS:
        r = res["sanity:" + v]
        if r.ok or not r.invariant_violated:
            raise core.MachineryError("broken variant %s of the model was not rejected by TLC" % v)
        ctx.cov["sanity_rejected_by"][v] = r.invariant_violated[0]
    return res[jobs[0][0]]


def dump_states(ctx, main_run=None):
    """parent: all (shape, initializer) states of the depth-2 universe and the shape table"""
    dump = os.path.join(ctx.tmp, "newinit_states")
    if main_run is not None and ctx.quick:
        r = main_run
    else:
        r = core.tlc("MC_NewInit", cfg_text=mc_cfg("faithful", 2, SHAPE_NAMES, [], combos="min" if ctx.quick else "all"),
                     dump=dump, workers=4)
        ctx.add_tlc("dump(MC_NewInit,depth<=2)", r, count_states=False)
    shp = printed_tuple(r.out, "SHAPES")
    if not shp:
        raise core.MachineryError("MC_NewInit did not print its shape table")
    return {"dot": dump + ".dot", "shapes": norm(shp[1])}


def replay_states(ctx, lab, recs, dot, tla_shapes):
    """spec -> code (sub-process): execute every state"""
    py = shapes_py()
    for name, t in py.items():
        lab.declare(t)
        mine = without_names(lab.rec(t))
        if norm(tla_shapes[name]["t"]) != mine or tla_shapes[name]["isptr"] != (not isinstance(t, mn.Arr)):
            raise core.MachineryError("shape %s of MC_NewInit.tla does not have the layout cffi reports:\n%r\n%r" % (
                name, tla_shapes[name]["t"], mine))
    g = tlaval.load_dot(dot)
    n = 0
    api = {}           # (shape, innerFirst) -> initializers, executed in compiled modules below
    for sid, st in g.states.items():
        if st["shape"] == "none" or st["init"]["k"] == "pending":
            continue
        t = py[st["shape"]]
        init = norm(st["init"])
        if st["mode"] == "api":
            api.setdefault((st["shape"], st["innerFirst"]), []).append(init)
            continue
        ctx.about("shape %s init %r" % (st["shape"], init))
        pyinit = None if init["k"] == "none" else render(lab, t, init)
        rec = lab.run_case(t, pyinit, init, "shape %s:%s" % (st["shape"], init["k"]))
        recs.append(rec)
        ctx.case(("state", st["shape"], repr(init)))
        n += 1
    # API mode: one compiled module per type history.  "outer first": the first thing that happens to the
    # module's types is ffi.new() of the outer struct; "inner first": the nested types were used before.
    src = lab.source_for(py["S8"])
    plans = {"c20_outer8": [("S8", False)], "c20_outer6": [("S6", False)], "c20_inner": [("S6", True), ("S8", True)]}
    plans = {m: [k for k in ks if k in api] for m, ks in plans.items()}
    plans = {m: ks for m, ks in plans.items() if ks}
    if plans:
        outdir = mn.build_api_modules(ctx.tmp, {m: src for m in plans})
        sys.path.insert(0, outdir)
        for m, ks in plans.items():
            mffi = importlib.import_module(m).ffi
            alab = mn.Lab(ctx.rng, ffi=mffi)
            if ks[0][1]:
                alab.keep.append(mffi.new("struct S5 *"))           # the inner type is realized first
            for shape, inner_first in ks:
                t = py[shape]
                r, how = lab.rec(t), lab.how_of(t)
                for init in api[(shape, inner_first)]:
                    ctx.about("API module %s: shape %s init %r" % (m, shape, init))
                    pyinit = None if init["k"] == "none" else mn.render_record(mffi, alab.keep, r, init)
                    rec = alab.run_record(r, how, pyinit, init, "api:shape %s:%s" % (shape, init["k"]))
                    recs.append(rec)
                    ctx.case(("api-state", shape, inner_first, repr(init)))
                    n += 1
            for shape, _i in ks:
                if not mn.same_layout(mffi, lab.rec(py[shape])):
                    raise core.MachineryError("API module %s: gcc's layout of %s differs from the shape table" % (m, shape))
    ctx.cov["graph_states_replayed"] = n


def api_driver(ctx, lab, recs, nmods, ntypes, ninits):
    """code -> spec in API mode: compiled modules declaring random structs (plain var-sized, var-sized struct nested
    as last member at depth 1 and 2, through typedefs, plus ordinary aggregates); in each module the first use of
    every outer type is the ffi.new() under test, before anything realized its nested types."""
    rng = ctx.rng
    mods = {}
    for m in range(nmods):
        plan = []
        for _ in range(ntypes):
            k = rng.random()
            if k < 0.15:
                t = lab.gen_nested_var(1, typedef=rng.random() < 0.4)
            elif k < 0.50:
                t = lab.gen_nested_var(2, typedef=rng.random() < 0.4)
            elif k < 0.70:
                t = lab.gen_nested_var(3, typedef=rng.random() < 0.4)
            else:
                t = lab.gen_agg(rng.choice([0, 1, 2]), rng.random() < 0.5)
                if rng.random() < 0.3:
                    t.typedef = "td_" + t.tag
            lab.declare(t)
            inits = [lab.gen_init_full(t)[1]] + [lab.gen_init(t, 3)[1] for _ in range(ninits - 1)]
            plan.append((t, inits))
        mods["c20_rand%d_%d" % (ctx.seed, m)] = plan
    outdir = mn.build_api_modules(ctx.tmp, {m: "".join(lab.source_for(t) for t, _i in plan) for m, plan in mods.items()})
    sys.path.insert(0, outdir)
    skipped = 0
    for m, plan in mods.items():
        mffi = importlib.import_module(m).ffi
        alab = mn.Lab(rng, ffi=mffi)
        mine = []
        for t, inits in plan:
            r, how = lab.rec(t), lab.how_of(t)
            for init in inits:
                ctx.about("API module %s: %s init %r" % (m, how["cdecl"], init))
                pyinit = None if init["k"] == "none" else mn.render_record(mffi, alab.keep, r, init)
                rec = alab.run_record(r, how, pyinit, init, "api:" + mn.describe(t, init, lab))
                mine.append((t, rec))
                ctx.case(("api", how["cdecl"], repr(init)))
        for t, rec in mine:                      # layout is C01/C12's subject: only agreeing types are judged
            if mn.same_layout(mffi, lab.rec(t)):
                recs.append(rec)
            else:
                skipped += 1
    ctx.cov["api_modules"] = len(mods)
    ctx.cov["api_cases_skipped_layout_differs"] = skipped


def driver(ctx, lab, recs, n):
    rng = ctx.rng
    types = []
    while len(recs) < n:
        if not types or rng.random() < 0.12:
            k = rng.random()
            if k < 0.70:
                t = lab.gen_agg(rng.choice([0, 1, 1, 2]), rng.random() < 0.5)
            elif k < 0.90:
                item = lab.gen_prim() if rng.random() < 0.7 else lab.gen_agg(rng.choice([0, 1]), False)
                t = mn.Arr(item, rng.choice([None, 1, 2, 3, rng.randint(1, 12)]))
                if rng.random() < 0.15 and t.n is not None:
                    t = mn.Arr(t, rng.choice([None, 2, 3]))
            else:
                t = lab.gen_prim()
            lab.declare(t)
            types.append(t)
            if len(types) > 40:
                types.pop(0)
        t = rng.choice(types[-8:]) if rng.random() < 0.7 else rng.choice(types)
        if rng.random() < 0.04 and not (isinstance(t, mn.Arr) and t.n is None):
            pyinit, init = None, mn.mk("none")
        else:
            pyinit, init = lab.gen_init(t, 3)
        ctx.about("%s init %r" % (lab.cname(t), init))
        rec = lab.run_case(t, pyinit, init, mn.describe(t, init, lab))
        recs.append(rec)
        ctx.case((rec["cdecl"], repr(init)))


def boundary_sweep(ctx, lab, recs):
    """code -> spec, systematic part: every encoding-boundary code point x every place a bytes/str initializes an
    array of char16_t / wchar_t / char (see Lab.boundary_cases); neighbours, lengths and the struct around come
    from ctx.rng.  Independent of the seed every boundary character meets the sizing pass (open arrays, flexible
    members, nested), the write pass and the bound check of fixed arrays."""
    n = 0
    for cn in ("char16_t", "wchar_t", "char"):
        for t, pyinit, init, what in lab.boundary_cases(mn.Prim(cn)):
            lab.declare(t)
            ctx.about("%s init %r" % (lab.cname(t), init))
            rec = lab.run_case(t, pyinit, init, "boundary-str:%s %s" % (cn, what))
            recs.append(rec)
            ctx.case((rec["cdecl"], repr(init)))
            n += 1
    ctx.cov["boundary_str_cases"] = n


def judge(ctx, recs, report=True):
    verdicts, diverge, _tot = batch_verdicts(ctx, "Trace_NewInit", [mn.strip(r) for r in recs],
                                               chunk=max(500, -(-len(recs) // 3)) if ctx.quick else 1500)
    nbad = 0
    for i in sorted(verdicts):
        for clause in verdicts[i]:
            nbad += 1
            if report:
                rec = recs[i]
                ctx.violation("%s:%s" % (clause, rec["desc"]), CLAUSE.get(clause, clause),
                              {"cdecl": rec["cdecl"], "how": rec.get("how"), "record": mn.strip(rec)})
    ctx.validated(len(recs))
    if report and ctx.violations:
        classes = {}
        for key, _w, _p in ctx.violations:
            classes[key] = classes.get(key, 0) + 1
        print("VIOLATION-CLASSES C20: %s" % ", ".join("%s x%d" % kv for kv in sorted(classes.items())))
    return nbad, diverge


def produce(cc, args):
    """executed in a sub-process (harness.mem2_child): everything that touches the real cffi"""
    lab = mn.Lab(cc.rng)
    recs = []
    replay_states(cc, lab, recs, args["dot"], args["shapes"])
    nstates = len(recs)
    boundary_sweep(cc, lab, recs)
    driver(cc, lab, recs, len(recs) + (1000 if cc.quick else 20000))
    napi0 = len(recs)
    if cc.quick:
        api_driver(cc, lab, recs, 3, 8, 5)
    else:
        api_driver(cc, lab, recs, 10, 12, 10)
    cc.cov["api_driver_cases"] = len(recs) - napi0
    for r in recs:
        r["init_kind"] = r["init"]["k"]
    return {"recs": recs, "nstates": nstates}


def run(ctx):
    main_run = design_level(ctx)
    out = run_child(ctx, "c20", dump_states(ctx, main_run))
    if out is None:
        return
    recs, nstates = out["recs"], out["nstates"]
    nbad, diverge = judge(ctx, recs)
    div = ["record %d %s (%s): %s" % (i, recs[i]["cdecl"], recs[i]["desc"], what) for i, what in sorted(diverge.items())]
    for i, r in enumerate(recs):
        if r["err1"] == "" and r.get("bytes_alloc") is not None and r["bytes_alloc"][:len(r["bytes1"])] != r["bytes1"]:
            div.append("record %d %s: ffi.new and ffi.new_allocator()(...) leave different bytes" % (i, r["cdecl"]))
    ctx.cov["model_divergences"] = div[:10]
    ctx.cov["model_divergence_count"] = len(div)
    if div:
        print("NOTE C20: %d differences from the implementation model (first: %s); verdicts come from the ideal"
              % (len(div), div[0]))
    kinds = {}
    for r in recs[nstates:]:
        kinds[r["desc"]] = kinds.get(r["desc"], 0) + 1
    ctx.cov["driver_case_kinds"] = kinds
    ctx.cov["records"] = {"from_TLC_states": nstates, "from_driver": len(recs) - nstates,
                          "raised": sum(1 for r in recs if r["err1"])}
    for r in recs[nstates:]:
        if r["desc"].startswith("struct+flex") and r["init"]["k"] in ("seq", "dict") and len(r["bytes1"]) > r["T"]["size"]:
            ctx.sample({"cdecl": r["cdecl"], "init": r["init"], "alloc": r["alloc"], "sizeof": r["sizeof"],
                        "bytes": r["bytes1"]}, limit=3)
    ctx.cov["rule"] = ("distinct = distinct (C type, initializer tree) constructions; each is executed three ways "
                       "(ffi.new with init, allocator-observed, new-then-assign)")
    ctx.cov["exhaustive"] = True    # every (shape, initializer) state of the depth-2 TLC universe was executed
    ctx.assumptions += ["layout (offsets, bit shifts, sizes) is read from cffi: it is C01's subject",
                        "leaf values are encoded by struct.pack (C03/C05's subject)",
                        "the size requested from a custom allocator equals the size ffi.new allocates "
                        "(same direct_newp code path)",
                        "initializers that do not fit, name unknown fields or two overlapping union members are "
                        "outside the statement (not generated / not judged)"]


def replay(ctx, obj):
    """declare the recorded C types again, rebuild the Python initializer from the recorded tree, execute the
    construction three ways on the current tree and judge the new record"""
    old = obj["replay"]
    desc = obj["key"].split(":", 1)[1]
    ctx.cov["states"] = ctx.cov["transitions"] = 1
    rec0 = old["record"]
    if old.get("how"):
        lab = mn.Lab(ctx.rng)
        if old["how"]["cdef"]:
            lab.ffi.cdef(old["how"]["cdef"])
        init = rec0["init"]
        pyinit = None if init["k"] == "none" else mn.render_record(lab.ffi, lab.keep, rec0["T"], init)
        rec = lab.run_record(rec0["T"], old["how"], pyinit, init, desc)
        what = "re-executed"
    else:
        rec, what = dict(rec0, cdecl=old["cdecl"], desc=desc), "re-validated recorded"
    nbad, _d = judge(ctx, [rec])
    print("%s construction %s: %s" % (what, old["cdecl"], "rejected by the ideal" if nbad else "accepted"))


def selftest(ctx):
    lab = mn.Lab(ctx.rng)
    py = shapes_py()
    for t in py.values():
        lab.declare(t)
    init = mn.mk("seq", items=[mn.mk("leaf", [7]), mn.mk("seq", items=[mn.mk("leaf", [9]), mn.mk("str", [65, 66], n=1)])])
    good = lab.run_case(py["S6"], [7, [9, b"AB"]], init, "selftest")
    ok1 = judge(ctx, [good], report=False)[0] == 0 and good["alloc"] == 5 and good["sizeof"] == 5
    bad1 = dict(good, bytes1=good["bytes1"][:-1] + [1])       # garbage after the terminator: not zero-filled
    bad2 = dict(good, alloc=4)                                # allocation too small for the claims
    bad3 = dict(good, bytes2=[0] + good["bytes2"][1:])        # assignment path differs
    bad4 = dict(good, sizeof=2)                               # sizeof reports the static size
    ok2 = judge(ctx, [bad1, bad2, bad3, bad4], report=False)[0] >= 4
    return ok1 and ok2


META = {
    "category": "model_checking",
    "text": "TLC checks, on 18 aggregate shapes x every well-formed initializer tree of depth <= 2 (3 in the thorough "
            "tier; str initializers are code-point sequences whose unit count - UTF-16 surrogate pairs - is defined "
            "by the ideal), that the transcription of direct_newp, its optvarsize pre-pass and the sequential write pass "
            "accepts the initializer, stays inside the allocation, allocates exactly max(sizeof, extent of the "
            "claims), yields the order-free pointwise ideal memory (zero except claimed bytes/bits) and equals "
            "new-then-assign; every such state, seeded random aggregate types x nested initializers and a sweep of "
            "encoding-boundary characters over every string-initializer position are executed "
            "on the real cffi three ways (ffi.new with init, allocator-observed size, new then p[0]=init) and TLC "
            "judges every record against the ideal.",
    "note": "In-line FFIs and compiled API-mode modules (emit_c_code + gcc). Layout and value encoding are inputs (C01/C03/C05). The allocated size is observed through "
            "ffi.new_allocator (same direct_newp path). Ill-formed initializers and dicts naming two overlapping "
            "union members are not judged (a str too long for a fixed array is judged only for writes past the "
            "allocation). ffi.sizeof(p[0]) of objects from a custom alloc= allocator reports the "
            "static size (outside the statement, noted in design_notes/C20.md).",
    "technique": "TLA+ model vs pointwise ideal (TLC) + execution of every TLC state + TLC validation of recorded constructions",
    "design_ref": "DESIGN.md §3 C20",
}
