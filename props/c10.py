"""C10 - enum values and underlying integer type match the compiler.

Design level : specs/Enum.tla: ideal = C11 6.7.2.2 value rule + GCC's choice of the compatible
               integer type + the ffi.string() law of the property; implementation model =
               Parser._build_enum_type, EnumType.build_baseinttype, the reverse loop of
               b_new_enum_type, convert_cdata_to_enum_string, Recompiler._enum_ctx.  MC_Enum (TLC,
               int = 3 bits, long = 5 bits): every declaration of <= 2 enumerators with explicit
               values over the whole range of long/unsigned long, implicit or referring, and every
               declaration of <= 3 (thorough: 4) enumerators over the boundary values; every declaration of
               <= 2 enumerators over boundary values + character constants ('c' / -'c': every simple escape
               sequence of C11 6.4.4.4, \\0-\\7, plain characters; int = 9, long = 10 bits); four broken
               variants must be rejected.  PlatformBV (integers beyond TLC's 32 bits) is itself
               model-checked against TLC's native arithmetic (MC_PlatformBV).
Binding      : (spec -> code) every boundary declaration TLC enumerated is mapped to the true widths
               (the boundary values of int/unsigned/long/unsigned long) and replayed, incl. the
               declarations with character constants (all single ones, a sample of the pairs); (code -> spec)
               random declarations from ctx.rng (integer literals, implicit, referring, character constants).  gcc reports sizeof, signedness and every value;
               cffi is run in-line (lib.NAME and typeof().relements), out-of-line ABI and API, with
               ffi.string(ffi.cast(enum, v)) for every declared value, its neighbours and range ends.
               Trace_Enum recomputes the ideal at 32/64 bits: gcc must agree (else machinery error),
               every cffi mode must agree (else VIOLATION).
"""
import concurrent.futures, json, os, re
from harness import core, tlaval
from harness import types_enum as te

LEVEL = "model_checking"
XSS = {"JAVA_TOOL_OPTIONS": "-Xss64m -XX:ParallelGCThreads=2 -Xms256m"}
VARIANTS = ("fwddict", "signle", "rangele", "rawesc")

CFG = """SPECIFICATION Spec
CONSTANTS LB = 2
  IntBits = %d
  LongBits = %d
  MaxLen = %d
  PrintUpTo = %d
  Full = %s
  CharLevel = %d
  Variant = "%s"
INVARIANT ValuesOK
INVARIANT BaseOK
INVARIANT StringOK
CHECK_DEADLOCK FALSE
"""

def sym(ib, lb):
    """MC_Enum's boundary values at IntBits = ib, LongBits = lb -> the same boundaries at 32/64 bits"""
    return {-2**(lb - 1): -2**63, -2**(lb - 1) + 1: -2**63 + 1, -2**(ib - 1) - 1: -2**31 - 1, -2**(ib - 1): -2**31,
            -1: -1, 0: 0, 1: 1, 2**(ib - 1) - 1: 2**31 - 1, 2**(ib - 1): 2**31, 2**ib - 1: 2**32 - 1, 2**ib: 2**32,
            2**(lb - 1) - 1: 2**63 - 1, 2**(lb - 1): 2**63, 2**lb - 1: 2**64 - 1}


CHARBITS = (9, 10)      # the character-constant run: all values of char (and their negations) fit in "int"


def cfg(maxlen, printupto, full, variant="faithful", charlevel=0, bits=(3, 5)):
    return CFG % (bits[0], bits[1], maxlen, printupto, "TRUE" if full else "FALSE", charlevel, variant)


def tuples(out, head):
    res = []
    for m in re.finditer(r'<<\s*"%s"' % head, out):
        depth, k, instr = 0, m.start(), False
        while k < len(out):
            c = out[k]
            if instr:
                instr = c != '"'
            elif c == '"':
                instr = True
            elif out.startswith("<<", k):
                depth += 1
                k += 1
            elif out.startswith(">>", k):
                depth -= 1
                k += 1
                if depth == 0:
                    break
            k += 1
        res.append(tlaval.parse_value(out[m.start():k + 1])[1:])
    return res


def decls_from_tlc(out, prefix, bits=(3, 5), keep=None):
    """keep(list of printed declarations) -> the sub-list to replay (None: all)"""
    decls, smap = [], sym(*bits)
    printed = [t[0] for t in tuples(out, "ENUM")]
    for nitems in (printed if keep is None else keep(printed)):
        ident = "%s%d" % (prefix, len(decls))
        items = []
        for i, it in enumerate(nitems):
            items.append({"name": "E%s_%s" % (ident, it["name"]), "k": it["k"], "ref": it["ref"],
                          "v": smap[it["v"]] if it["k"] == "explicit" else 0,
                          "sp": list(it["sp"]), "cneg": bool(it["cneg"])})
        if not te.defined(items):
            raise core.MachineryError("TLC printed a declaration the harness considers undefined: %r" % items)
        decls.append({"id": ident, "items": items})
    return decls


def measure(ctx, decls):
    """-> trace records"""
    for d in decls:
        for it in d["items"]:                   # replay files written before the character-constant dimension
            it.setdefault("sp", [])
            it.setdefault("cneg", False)
    texts = {d["id"]: te.render(d, ctx.rng) for d in decls}
    g = te.parse_gcc(core.gcc_run(te.gcc_source(decls, [texts[d["id"]] for d in decls]), ctx.tmp,
                                  name="enum_probe_%d" % len(ctx.cov["tlc_runs"])))
    queries = {d["id"]: te.queries_for(d, g[d["id"]]["bits"], g[d["id"]]["signed"], ctx.rng, vals=g[d["id"]]["vals"])
               for d in decls}
    c = te.measure_cffi(decls, texts, queries, ctx.tmp, jobs=3)
    recs = []
    for d in decls:
        i = d["id"]
        gi = dict(g[i], vals=[te.enc(v) for v in g[i]["vals"]])
        recs.append({"id": i, "text": texts[i],
                     "items": [dict(it, v=te.enc(it["v"])) for it in d["items"]],
                     "queries": [te.enc(q) for q in queries[i]], "gcc": gi, "cffi": c[i]})
        ctx.case(texts[i].replace("E" + i + "_", "").replace("e" + i, "e"))
    return recs


def validate(ctx, recs, name="Trace_Enum"):
    verdicts = {}
    parts = [recs[lo:lo + 2500] for lo in range(0, len(recs), 2500)]

    def one(j):
        path = os.path.join(ctx.tmp, "enum_%d_%d.json" % (len(ctx.cov["tlc_runs"]), j))
        core.write_json(path, [{k: v for k, v in r.items() if k != "text"} for r in parts[j]])
        return core.tlc("Trace_Enum", workers=4, env=dict(XSS, TRACE_FILE=path), timeout=3000)
    with concurrent.futures.ThreadPoolExecutor(max_workers=3) as ex:
        results = list(ex.map(one, range(len(parts))))
    for part, r in zip(parts, results):
        ctx.add_tlc(name, r, count_states=False)
        checked = set(core.unq(t[0]) for t in core.tla_tuples(r.out, "CHECKED"))
        if checked != set(x["id"] for x in part):
            raise core.MachineryError("trace validation incomplete: %d of %d records checked\n%s" % (
                len(checked), len(part), r.out[-1500:]))
        for t in core.tla_tuples(r.out, "VERDICT"):
            verdicts.setdefault(core.unq(t[0]), []).append((core.unq(t[1]), core.unq(t[2]), int(t[3])))
    return verdicts


CLAUSE = {"rejected": "a non-empty enum without '...' is rejected",
          "values": "an enumerator value differs from the compiler's",
          "size": "ffi.sizeof(enum) differs from the compiler's",
          "sign": "the signedness of the enum differs from the compiler's",
          "string": "ffi.string() is not the first declared enumerator with that value / the decimal number"}


def shape(rec):
    """value-range class of a declaration, for violation keys"""
    vals = [te.dec(v) for v in rec["gcc"]["vals"]]
    lo, hi = min(vals), max(vals)
    cls = ("neg" if lo < 0 else "nonneg") + (":>ulong" if hi > te.ULONG_MAX else ":>long" if hi > te.LONG_MAX else
                                              ":>uint" if hi > te.UINT_MAX else ":>int" if hi > te.INT_MAX else ":int")
    if lo < -2**31:
        cls += ":<int"
    return cls


def culprit(rec, clause, k):
    """':charconst:<spelling>' if the enumerator the verdict points at takes its value from a character constant
    (directly, as the start of an implicit run, or through a reference); ':charconst' if the declaration has one"""
    items = rec["items"]
    if clause == "values" and 1 <= k <= len(items):
        i = k - 1
        while i >= 0 and items[i]["k"] in ("implicit", "ref"):
            i = items[i]["ref"] - 1 if items[i]["k"] == "ref" else i - 1
        if i >= 0 and items[i]["k"] == "char":
            return ":charconst:'%s'" % "".join(map(chr, items[i]["sp"]))
    if clause == "rejected" and any(it["k"] == "char" and len(it["sp"]) > 2 for it in items):
        return ":charconst:numeric-escape"          # octal escape of 2-3 digits / hexadecimal escape (VERIF_C10_NUMESC=1)
    chars = sorted(set("".join(map(chr, it["sp"])) for it in items if it["k"] == "char"))
    if len(chars) == 1:
        return ":charconst:'%s'" % chars[0]
    return ":charconst" if chars else ""


def judge(ctx, recs, verdicts):
    byid = {r["id"]: r for r in recs}
    div = ctx.cov.setdefault("model_divergences", [])
    for ident, vs in verdicts.items():
        rec = byid[ident]
        for who, clause, k in vs:
            if who in ("gcc", "class"):
                raise core.MachineryError("%s: the platform model and gcc disagree (%s %s %d) on %s gcc=%s" % (
                    ident, who, clause, k, rec["text"], rec["gcc"]))
        seen = set()
        for who, clause, k in vs:
            if who.startswith("cffi:") and who not in seen:
                seen.add(who)
                mode = who[5:]
                obs = [o for o in rec["cffi"] if o["mode"] == mode][0]
                ctx.violation("enum:%s:%s:%s%s" % (mode, clause, shape(rec), culprit(rec, clause, k)),
                              "%s [%s mode]: %s (item/query %d)" % (CLAUSE.get(clause, clause), mode, rec["text"], k),
                              {"decl": {"id": ident, "items": [dict(it, v=te.dec(it["v"])) for it in rec["items"]]},
                               "text": rec["text"], "gcc": rec["gcc"], "observed": obs, "clause": clause})
        if not seen:
            for who, clause, k in vs:
                if who.startswith("model:") and len(div) < 10:
                    div.append({"who": who, "clause": clause, "index": k, "decl": rec["text"]})
    ctx.validated(len(recs))


def design_level(ctx):
    quick = ctx.quick
    runs = [("MC_Enum(<=2 enumerators, all values of long/unsigned long, int=3 long=5 bits)", cfg(2, 0, True), 4),
            ("MC_Enum(<=%d enumerators, boundary values)" % (3 if quick else 4), cfg(3 if quick else 4, 2 if quick else 3, False), 6),
            ("MC_Enum(<=2 enumerators, boundary values + character constants: every simple escape, \\0-\\7, plain; "
             "int=%d long=%d bits)" % CHARBITS, cfg(2, 2, False, charlevel=3 if quick else 2, bits=CHARBITS), 3)]

    def mc(a):
        return core.tlc("MC_Enum", cfg_text=a[1], workers=a[2], timeout=3000, env=XSS)

    def variant(v):
        if v == "rawesc":      # escapes evaluate to the code of the letter (the defect fixed by 4d735ce)
            return core.tlc("MC_Enum", cfg_text=cfg(1, 0, False, v, charlevel=2, bits=CHARBITS), workers=1, timeout=900, env=XSS)
        return core.tlc("MC_Enum", cfg_text=cfg(2, 0, False, v), workers=2, timeout=900, env=XSS)

    def bv(_):
        return core.tlc("MC_PlatformBV", cfg_text="INIT Init\nNEXT Next\nCONSTANTS LB = 2\n  R = %d\n" % (10 if quick else 40),
                        workers=1, timeout=3000, env=XSS)
    with concurrent.futures.ThreadPoolExecutor(max_workers=8) as ex:
        fm = [ex.submit(mc, a) for a in runs]
        fv = [ex.submit(variant, v) for v in VARIANTS]
        fb = ex.submit(bv, None)
        outs = []
        for a, f in zip(runs, fm):
            r = f.result()
            ctx.add_tlc(a[0], r)
            outs.append(r.out)
        for v, f in zip(VARIANTS, fv):
            r = f.result()
            ctx.add_tlc("sanity:" + v, r, require_ok=False, count_states=False)
            if r.ok or not r.invariant_violated:
                raise core.MachineryError("broken variant %s of the enum model was not rejected by TLC\n%s" % (v, r.out[-1500:]))
        ctx.add_tlc("MC_PlatformBV(limb arithmetic = native arithmetic)", fb.result(), count_states=False)
    return outs[1], outs[2]


def run(ctx):
    quick = ctx.quick
    n = 300 if quick else 5000
    rnd = [te.random_enum(ctx.rng, "r%d" % i) for i in range(n)]
    with concurrent.futures.ThreadPoolExecutor(max_workers=2) as ex:
        fr = ex.submit(measure, ctx, rnd)                   # code -> spec measurements meanwhile
        out, cout = design_level(ctx)
        decls = decls_from_tlc(out, "d")
        if len(decls) < 100:
            raise core.MachineryError("MC_Enum printed only %d declarations" % len(decls))

        def keep(printed):      # every single-enumerator declaration, a sample of the two-enumerator ones
            one = [p for p in printed if len(p) == 1]
            two = [p for p in printed if len(p) == 2]
            if len(one) < 2 * 26 or len(two) < 500:
                raise core.MachineryError("MC_Enum (character constants) printed only %d + %d declarations"
                                          % (len(one), len(two)))
            return one + ctx.rng.sample(two, min(len(two), 60 if quick else 1500))
        cdecls = decls_from_tlc(cout, "c", CHARBITS, keep)
        ctx.cov["char_constant_declarations"] = len(cdecls)
        decls += cdecls
        rrecs = fr.result()
    recs = measure(ctx, decls)                              # spec -> code
    allrecs = recs + rrecs
    judge(ctx, allrecs, validate(ctx, allrecs, "Trace_Enum(%d TLC-enumerated + %d random declarations, 4 modes)"
                                 % (len(recs), len(rrecs))))
    for rec in (recs[-1], rrecs[0], rrecs[1]):
        ctx.sample({"decl": rec["text"], "gcc": {"bits": rec["gcc"]["bits"], "signed": rec["gcc"]["signed"],
                                                 "vals": [te.dec(v) for v in rec["gcc"]["vals"]]},
                    "cffi": [{"mode": o["mode"], "bits": o["bits"], "signed": o["signed"],
                              "vals": [te.dec(v) for v in o["vals"]],
                              "strings": [s["name"] if not s["isdec"] else str(te.dec(s["val"])) for s in o["strs"]][:6]}
                             for o in rec["cffi"]]})
    if ctx.cov["model_divergences"]:
        print("NOTE C10: %d observations leave the implementation model but not the ideal (first: %s)"
              % (len(ctx.cov["model_divergences"]), ctx.cov["model_divergences"][0]))
    ctx.cov["rule"] = "distinct = distinct declarations (names normalised), each run through gcc and 4 cffi observation modes"
    ctx.cov["exhaustive"] = True
    ctx.cov["bound"] = {"int_bits": 3, "long_bits": 5, "replayed_up_to_enumerators": 2 if quick else 3,
                        "random_declarations": len(rrecs)}
    ctx.assumptions += ["gcc on this machine is the platform C compiler; its answers are validated against Enum.tla first",
                        "declarations gcc rejects (implicit successor of INT_MAX/UINT_MAX/LONG_MAX/ULONG_MAX, negative "
                        "values together with values > LONG_MAX) are outside the class",
                        "queries for ffi.string stay inside the range of the underlying type (a cast would wrap others)"]


def replay(ctx, obj):
    d = obj["replay"]["decl"]
    recs = measure(ctx, [d])
    v = validate(ctx, recs)
    ctx.cov["states"] = ctx.cov["transitions"] = 1
    judge(ctx, recs, v)
    print("replayed %s\n  gcc: %s\n  verdicts: %s" % (recs[0]["text"], recs[0]["gcc"], v.get(d["id"], "accepted")))


def selftest(ctx):
    decls = [te.random_enum(ctx.rng, "s%d" % i) for i in range(6)]
    recs = measure(ctx, decls)
    ok = not validate(ctx, recs)
    recs[0]["cffi"][0]["bits"] = 96 - recs[0]["cffi"][0]["bits"]
    recs[1]["cffi"][2]["signed"] = not recs[1]["cffi"][2]["signed"]
    recs[2]["cffi"][3]["vals"][0] = te.enc(te.dec(recs[2]["cffi"][3]["vals"][0]) + 1)
    recs[3]["cffi"][0]["strs"][0] = {"isdec": False, "name": "nope", "val": te.enc(0)}
    recs[4]["gcc"]["signed"] = not recs[4]["gcc"]["signed"]
    v = validate(ctx, recs)
    want = {"s0": ("cffi:inline", "size"), "s1": ("cffi:abi", "sign"), "s2": ("cffi:api", "values"),
            "s3": ("cffi:inline", "string"), "s4": ("gcc", "sign")}
    for ident, (who, clause) in want.items():
        if (who, clause) not in [(w, c) for w, c, _k in v.get(ident, [])]:
            print("selftest: corruption of %s not detected (%s)" % (ident, v.get(ident)))
            ok = False
    ok = ok and "s5" not in v
    ctx.cov["states"] = ctx.cov["transitions"] = 1
    return ok


META = {
    "category": "model_checking",
    "text": "TLC checks, for every enum declaration of <= 2 enumerators over the whole value range of long/unsigned long "
            "(int = 3 bits, long = 5 bits), <= 3-4 enumerators over the boundary values (explicit, implicit, "
            "referring) and <= 2 enumerators over boundary values and character constants (every simple escape "
            "sequence, one-digit octal escapes, plain characters, optionally negated), that the transcribed _build_enum_type / build_baseinttype / b_new_enum_type reverse loop / "
            "enum-to-string code equals the ideal (C value rule, GCC's underlying type rule, first-declared-name law) "
            "and rejects four broken variants; the enumerated boundary declarations mapped to 32/64 bits and "
            "thousands of random declarations are compiled by gcc and declared in cffi in-line, out-of-line ABI and "
            "API mode, and TLC validates all measurements (values, sizeof, signedness, ffi.string of every declared "
            "and neighbouring value) against the ideal at the true widths with model-checked limb arithmetic.",
    "note": "Trusted: gcc (validated against the specification first), TLC. Declarations gcc rejects are outside the "
            "class. ffi.string queries are restricted to the range of the underlying type.",
    "technique": "TLA+ refinement (TLC, exhaustive in the bound) + replay of enumerated declarations at true widths + "
                 "TLC validation of gcc/cffi measurements in 3 modes",
    "design_ref": "DESIGN.md §3 C10",
}
