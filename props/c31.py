"""C31 - comments, spacing and line directives do not change a cdef's meaning.

Specification: specs/Preproc.tla.  A cdef is a sequence of lines of preprocessing tokens (a
               corpus of 32 #define and declaration lines covering cdef's features, among them the
               '...' forms that cdef rewrites textually before the C parser sees them, with types
               of several keywords: 'typedef unsigned long ... T;', 'typedef long long int ... T;',
               'typedef float ... T;', 'enum { A = ..., B, ... }'); the module's
               content is the LEGALITY of putting a piece of trivia (17 kinds: block / multi-line /
               odd comments, line comments, spaces, tabs, newlines, form feed, no space at all,
               backslash-newline, three forms of line directive) into a gap between two tokens,
               derived from the C translation phases, and Render, the resulting text.
Design level : TLC enumerates every legal single insertion for the chosen cdefs (exhaustive) and
               random multiple insertions (simulation, thorough tier) and checks the structural
               invariants of the insertion machine (ordered, legal, no directive line broken).
Binding      : spec -> code: every rendered text is given to a fresh FFI: cdef(), the declaration
               table, constants, the backend's layout of every declared type, and the bytes of
               emit_c_code()/emit_python_code() are digested (harness/parse_denote.py).
               code -> spec: the recorded (insertions, base digests, digests) are validated by
               TLC (Trace_Preproc.tla): every recorded insertion is legal per the spec and all
               components equal those of the untouched text.
"""
import hashlib, json, os
from harness import core, tlaval
from harness import parse_env as pe
from harness import parse_denote as pd

LEVEL = "model_checking"
NLINES = 32

WHAT = {"rejected": "the text with the trivia is rejected (or accepted) differently from the untouched text",
        "declarations": "the declaration table differs", "constants": "the integer constants differ",
        "layout": "sizes/alignments/field layouts differ", "emit_c": "emit_c_code() output differs",
        "emit_py": "emit_python_code() output differs"}


def choose_cdefs(rng, n):
    """at least n cdefs of 3-6 distinct corpus lines; cdefs are added until every corpus line is in one"""
    order = list(range(1, NLINES + 1))
    rng.shuffle(order)
    cdefs, i = [], 0
    while len(cdefs) < n or i < NLINES:
        m = rng.randint(3, 6)
        pick = []
        while len(pick) < m:
            pick.append(order[i % NLINES])
            i += 1
            if i % NLINES == 0:
                rng.shuffle(order)
        pick = sorted(set(pick), key=pick.index)
        cdefs.append(pick)
    return cdefs


def cfg(maxins, invs=("OrderedIns", "AllLegal", "NoBrokenDirective", "EllipsisTypeGapsOffered", "Emit")):
    return "SPECIFICATION Spec\nCONSTANT MaxIns = %d\n%sCHECK_DEADLOCK FALSE\n" % (
        maxins, "".join("INVARIANT %s\n" % i for i in invs))


def digest(d):
    return {c: hashlib.sha256(json.dumps(d.get(c), sort_keys=True, default=repr).encode()).hexdigest()[:16]
            for c in pd.COMPONENTS}


def validate(ctx, cdef_file, recs):
    bad = []
    for i in range(0, len(recs), 20000):
        part = [dict(r, id=k + 1) for k, r in enumerate(recs[i:i + 20000])]
        path = os.path.join(ctx.tmp, "c31_recs_%d.json" % i)
        core.write_json(path, [{k: r[k] for k in ("id", "k", "ins", "base", "got")} for r in part])
        r = core.tlc("Trace_Preproc", cfg_text="SPECIFICATION TSpec\nCONSTANT MaxIns = 1\nCHECK_DEADLOCK FALSE\n",
                     workers=1, env={"TRACE_FILE": path, "CDEF_FILE": cdef_file}, timeout=1800)
        ctx.add_tlc("Trace_Preproc", r, count_states=False)
        chk = core.tla_tuples(r.out, "CHECKED")
        if not chk or int(chk[0][0]) != len(part):
            raise core.MachineryError("Trace_Preproc did not check all %d records:\n%s" % (len(part), r.out[-2000:]))
        for t in core.tla_tuples(r.out, "VERDICT"):
            bad.append((i + int(t[0]) - 1, core.unq(t[1])))
        ctx.validated(len(part))
    return bad


def execute(ctx, rows, cdef_file):
    """rows: parsed T tuples (k, ins, text).  Returns records."""
    items = [(ctx.tmp, text) for _t, k, ins, text in rows]
    obs = pe.pool_map(None, {"denote": pd.worker}, "denote", items, nproc=8, chunk=150)
    base, base_text = {}, {}
    for (_t, k, ins, text), o in zip(rows, obs):
        if not ins:
            base[k] = o
            base_text[k] = text
    recs = []
    for (_t, k, ins, text), o in zip(rows, obs):
        ctx.case(text)
        if k not in base:
            raise core.MachineryError("no untouched rendering for cdef %d" % k)
        if "rejected" in base[k]:
            # the untouched text (tokens separated by one space) is itself a spacing of the declarations
            if not ins:
                ctx.violation("untouched-text-rejected:%s" % base[k]["rejected"][0],
                              "cdef() rejects the corpus lines written with one space between tokens: %r -> %s"
                              % (text, base[k]["rejected"]), {"cdef": ctx.c31_cdefs[k - 1], "ins": [], "cls": [], "text": text,
                                                               "base_text": text, "component": "rejected"})
            continue
        recs.append({"k": k, "ins": [{"l": a["l"], "p": a["p"], "tr": a["tr"]} for a in ins],
                     "cls": [a["tr"] + "@" + a["cls"] for a in ins], "text": text,
                     "base": digest(base[k]), "got": digest(o), "raw": o if o != base[k] else None,
                     "base_text": base_text[k], "cdef": ctx.c31_cdefs[k - 1]})
    return recs


def report(ctx, recs, bad):
    import re
    for idx, comp in bad:
        r = recs[idx]
        if comp == "illegal":
            raise core.MachineryError("the specification calls a recorded insertion illegal: %s" % r["ins"])
        keys = r["cls"]
        known = [k for k in keys if any(re.fullmatch(f["key"], k) for f in ctx.known)]
        key = known[0] if known else "+".join(keys)
        detail = ""
        if r["raw"] is not None and "rejected" in r["raw"]:
            detail = " -> %s: %s" % tuple(r["raw"]["rejected"])
        ctx.violation(key, "%s after inserting %s: %r%s" % (WHAT.get(comp, comp), ", ".join(keys), r["text"][:300], detail),
                      {"cdef": r.get("cdef"), "ins": r["ins"], "cls": r["cls"], "text": r["text"],
                       "base_text": r.get("base_text"), "component": comp})


def run(ctx):
    quick = ctx.quick
    rng = ctx.rng
    cdefs = choose_cdefs(rng, 8 if quick else 30)
    cdef_file = os.path.join(ctx.tmp, "c31_cdefs.json")
    core.write_json(cdef_file, cdefs)
    ctx.c31_cdefs = cdefs
    r = core.tlc("Preproc", cfg_text=cfg(1), workers=6, env={"CDEF_FILE": cdef_file}, timeout=2400)
    ctx.add_tlc("Preproc(singles,%d cdefs)" % len(cdefs), r)
    rows = [x for x in pe.parse_generator_output(r.out) if x[0] == "T"]
    if len(rows) < len(cdefs) * 50:
        raise core.MachineryError("Preproc enumerated only %d texts" % len(rows))
    rows = [(t, k, [dict(a) for a in ins], text) for t, k, ins, text in rows]
    multi = []
    if not quick:
        # simulation mode evaluates Emit on every successor it generates before choosing one: ~600 texts per step
        r = core.tlc("Preproc", cfg_text=cfg(6, invs=("AllLegal", "NoBrokenDirective", "EllipsisTypeGapsOffered", "Emit")), workers=2,
                     env={"CDEF_FILE": cdef_file}, simulate="num=40", depth=7, seed=ctx.seed + 1, timeout=2400)
        ctx.add_tlc("Preproc(simulate,<=6 insertions)", r, count_states=False)
        seen = {row[3] for row in rows}
        for x in pe.parse_generator_output(r.out):
            if x[0] == "T" and x[3] not in seen:
                seen.add(x[3])
                multi.append((x[0], x[1], [dict(a) for a in x[2]], x[3]))
    recs = execute(ctx, rows + multi, cdef_file)
    bad = validate(ctx, cdef_file, recs)
    report(ctx, recs, bad)
    kinds = {}
    for rcd in recs:
        for c in rcd["cls"]:
            kinds[c] = kinds.get(c, 0) + 1
    ctx.cov["insertion_classes"] = len(kinds)
    ctx.cov["cases"] = {"cdefs": len(cdefs), "single_insertions": len(rows) - len(cdefs), "multi_insertions": len(multi)}
    vk = {}
    for k_, w, _p in ctx.violations:
        vk[k_] = vk.get(k_, 0) + 1
    ctx.cov["verdict_keys"] = vk
    for rcd in recs[:1] + recs[len(recs) // 2: len(recs) // 2 + 2]:
        ctx.sample({"cdef": rcd["k"], "insertions": rcd["cls"], "text": rcd["text"], "equal": rcd["base"] == rcd["got"]})
    ctx.cov["rule"] = "distinct = distinct rendered texts executed; every one carries at least one insertion except the untouched bases"
    ctx.cov["exhaustive"] = True
    ctx.assumptions += ["the corpus lines are tokenised by hand in Preproc!Corpus; trivia goes between tokens only",
                        "carriage return is not treated as white space (C11 6.4p3 lists space, tab, newline, vertical tab, form feed)",
                        "Denote = declaration table + constants + backend layout + emitted files; runtime behaviour of the "
                        "declared functions is not part of it"]


def replay(ctx, obj):
    """re-render the stored insertions through the specification and re-execute"""
    rp = obj["replay"]
    cdef_file = os.path.join(ctx.tmp, "c31_cdefs.json")
    # the cdef is recovered from the stored text's untouched rendering: the replay file stores k and the
    # insertions; the corpus selection is stored with it
    core.write_json(cdef_file, [rp["cdef"]])
    base = pd.denote(rp["base_text"], ctx.tmp)
    got = pd.denote(rp["text"], ctx.tmp)
    ctx.cov["states"] = 1
    rec = {"k": 1, "ins": rp["ins"], "cls": rp.get("cls", ["?"]), "text": rp["text"], "base": digest(base),
           "got": digest(got), "raw": got}
    bad = validate(ctx, cdef_file, [rec])
    report(ctx, [rec], bad)
    print("replayed: %s" % ("components differ: %s" % bad[0][1] if bad else "same meaning"))


def selftest(ctx):
    cdef_file = os.path.join(ctx.tmp, "c31_cdefs.json")
    core.write_json(cdef_file, [[1, 16]])
    a = pd.denote("#define FOO 42\nint add ( int a , int b ) ;\n", ctx.tmp)
    b = pd.denote("#define FOO 42\nint add ( int a , /* c */ int b ) ;\n", ctx.tmp)
    c = pd.denote("#define FOO 43\nint add ( int a , int b ) ;\n", ctx.tmp)
    ins = [{"l": 2, "p": 6, "tr": "block"}]
    ok = not validate(ctx, cdef_file, [{"k": 1, "ins": ins, "base": digest(a), "got": digest(b)}])
    bad = validate(ctx, cdef_file, [{"k": 1, "ins": ins, "base": digest(a), "got": digest(c)}])
    ill = validate(ctx, cdef_file, [{"k": 1, "ins": [{"l": 1, "p": 3, "tr": "newline"}], "base": digest(a), "got": digest(a)}])
    return ok and [x[1] for x in bad] in (["constants"], ["declarations"]) and [x[1] for x in ill] == ["illegal"]


META = {
    "category": "model_checking",
    "text": "The legality of inserting each of 17 kinds of trivia (comments incl. multi-line and odd contents, line "
            "comments, spaces, tabs, newlines, form feed, removal of optional space, backslash-newline, three forms of "
            "line directive) into each gap of #define and declaration lines is specified from the C translation phases; "
            "TLC enumerates every legal single insertion for seeded cdefs that together cover a 32-line corpus (incl. the "
            "textually rewritten '...' forms with multi-keyword types, gap class in-ellipsis-type; and random multiple "
            "insertions in the thorough tier) and renders the text; each text is given to a fresh FFI and its declaration "
            "table, constants, backend layout and the bytes of emit_c_code()/emit_python_code() are compared with those of "
            "the untouched text; TLC validates every recorded observation (legality + equality).",
    "note": "Trusted: TLC. Trivia is inserted between tokens only; carriage return is not in the trivia set. The corpus is "
            "fixed (32 lines); cdefs are seeded selections of 3-6 lines, as many as needed to cover the corpus.",
    "technique": "TLA+ insertion machine with legality conditions (TLC exhaustive singles + simulation) + replay + TLC trace validation",
    "design_ref": "DESIGN.md §3 C31",
}
