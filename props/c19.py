"""C19 - buffers, from_buffer and memmove match a byte-array model.

Design level : specs/BufferOps.tla holds the reference semantics (declarative bytearray index / slice
               selection with length-preserving assignment, from_buffer lengths, memmove through a
               temporary) and the implementation model (minibuffer.h over PySlice_Unpack /
               PySlice_AdjustIndices, direct_from_buffer, C memmove as a direction-dependent byte
               loop).  BufferSlice.tla: TLC compares them on every buffer length <= 5 x start, stop in
               -7..7 or None x step None/1/2/-1/0 x value length, every in-bounds (dst, src, n) triple
               of an 8-byte arena, object length x item size x open/fixed from_buffer.  Buffer.tla:
               histories (buffers, index/slice reads and writes, cdata stores, memmove, from_buffer
               views and item access) with the action property RefinesIdeal.  Five broken variants
               must be rejected.
Binding      : spec -> code: every edge of the dumped Buffer.tla graph is executed on bytearray,
               array.array('H') and cdata char[] backed memory and compared (status, bytes read,
               whole contents, liveness of every buffer) with the model state; the BufferSlice cases
               are executed on real buffers too.  code -> spec: seeded random histories with sizes up
               to 4 KiB.  All executions are recorded and validated by TLC against the reference
               semantics (Trace_Buffer.tla); verdicts come from there.
"""
import os
from harness import core, tlaval
from harness import mem_common as mc
from harness import mem_buf as mb

LEVEL = "model_checking"
VARIANTS = [("no_neg_norm", "slice"), ("clamp_off", "slice"), ("ass_nolen", "slice"), ("memcpy_fwd", "slice"),
            ("fb_roundup", "slice"), ("memcpy_fwd", "machine")]

CLAUSE = {
    "buffer:length": "ffi.buffer(p, n) is not a length-n view",
    "buffer:not-accepted": "ffi.buffer(p, n) failed",
    "getidx:value": "buf[i] is not the byte at position i (negative i from the end)",
    "getidx:not-accepted": "buf[i] with -n <= i < n was rejected",
    "getidx:not-IndexError": "buf[i] outside -n <= i < n did not raise IndexError",
    "setidx:memory": "buf[i] = b did not change exactly that byte",
    "setidx:not-accepted": "buf[i] = b with -n <= i < n was rejected",
    "setidx:not-IndexError": "buf[i] = b outside the range did not raise IndexError",
    "setidx:memory-touched": "a rejected buf[i] = b touched memory",
    "getslice:value": "buf[a:b] is not the bytearray slice",
    "getslice:not-accepted": "buf[a:b] (step 1) was rejected",
    "setslice:memory": "buf[a:b] = v did not replace exactly the bytearray slice",
    "setslice:not-accepted": "a length-preserving buf[a:b] = v was rejected",
    "setslice:length-changing-accepted": "buf[a:b] = v with len(v) != slice length was accepted",
    "setslice:memory-touched": "a rejected slice assignment touched memory",
    "cwrite:memory": "a store through the cdata pointer is not what the arena shows",
    "memmove:memory": "ffi.memmove(dst, src, n) is not a copy through an intermediate buffer",
    "memmove:value": "ffi.memmove into a separate bytearray copied the wrong bytes",
    "memmove:not-accepted": "ffi.memmove failed",
    "memmove:source-touched": "ffi.memmove changed its source",
    "frombuf:length": "ffi.from_buffer('T[]', obj) does not have len(obj)//sizeof(T) items",
    "frombuf:not-accepted": "ffi.from_buffer failed on a large enough object",
    "frombuf:too-small-not-ValueError": "ffi.from_buffer('T[k]', obj) with a too small obj did not raise ValueError",
    "frombuf:not-aliasing(read)": "an item of the from_buffer view is not the object's bytes",
    "frombuf:not-aliasing(write)": "storing through the from_buffer view did not change the object's bytes there",
}


def slice_cfg(maxlen, maxidx, arena, variant="faithful", props=True):
    s = 'SPECIFICATION Spec\nCONSTANTS MaxLen = %d\n  MaxIdx = %d\n  ArenaN = %d\n  Variant = "%s"\n' % (
        maxlen, maxidx, arena, variant)
    if props:
        s += "INVARIANT SliceGetEq\nINVARIANT SliceSetEq\nINVARIANT IndexEq\nINVARIANT MoveEq\nINVARIANT FromBufEq\n"
    return s + "CHECK_DEADLOCK FALSE\n"


def machine_cfg(n, maxbufs, maxsteps, prune=False, view=True, variant="faithful", props=True):
    s = 'SPECIFICATION Spec\nCONSTANTS N = %d\n  MaxBufs = %d\n  MaxSteps = %d\n  Prune = %s\n  Variant = "%s"\n' % (
        n, maxbufs, maxsteps, "TRUE" if prune else "FALSE", variant)
    if view:
        s += "VIEW StateView\n"
    if props:
        s += "INVARIANT BytesOnly\nPROPERTY RefinesIdeal\n"
    return s + "CHECK_DEADLOCK FALSE\n"


def validate(ctx, traces):
    bad = []
    for lo in range(0, len(traces), 8000):
        chunk = traces[lo:lo + 8000]
        tups = core.tlc_verdicts(ctx, "Trace_Buffer", chunk, workers=4)
        verdicts = {int(t[0]): (core.unq(t[1]), int(t[2])) for t in tups}
        if len(verdicts) != len(chunk):
            raise core.MachineryError("trace validation incomplete: %d verdicts for %d traces" % (len(verdicts), len(chunk)))
        for k in range(1, len(chunk) + 1):
            v, pos = verdicts[k]
            ctx.validated(len(chunk[k - 1]["ev"]))
            if v != "ok":
                bad.append((lo + k - 1, v, pos))
    return bad


# ------------------------------------------------------------------ design level
def design_runs(ctx):
    q = ctx.quick
    runs = [("MC_BufferSlice(len<=5, bounds -7..7/None, steps None,1,2,-1,0; 8-byte memmove; from_buffer)",
             "BufferSlice", slice_cfg(5, 7, 8)),
            ("MC_Buffer(N=%d, %d buffers, %d steps)" % ((3, 1, 3) if q else (4, 2, 3)), "Buffer",
             machine_cfg(3 if q else 4, 1 if q else 2, 3))]
    if not q:
        runs.append(("MC_Buffer(N=5, 2 buffers, 2 steps)", "Buffer", machine_cfg(5, 2, 2)))
    return runs


def submit_design(ctx, jobs):
    for name, module, cfg in design_runs(ctx):
        jobs.submit(name, module, cfg_text=cfg, workers=4 if ctx.quick else 8, timeout=3000)
    for v, where in VARIANTS:
        if where == "slice":
            jobs.submit("sanity:%s(%s)" % (v, where), "BufferSlice", cfg_text=slice_cfg(3, 4, 5, v), workers=2, timeout=1200)
        else:
            jobs.submit("sanity:%s(%s)" % (v, where), "Buffer", cfg_text=machine_cfg(4, 1, 1, variant=v), workers=2, timeout=1200)


def collect_design(ctx, jobs):
    for name, _m, _c in design_runs(ctx):
        ctx.add_tlc(name, jobs.result(name))
    for v, where in VARIANTS:
        name = "sanity:%s(%s)" % (v, where)
        r = jobs.result(name)
        ctx.add_tlc(name, r, require_ok=False, count_states=False)
        if r.ok or "is violated" not in r.out:
            raise core.MachineryError("broken variant %s (%s) was not rejected by TLC:\n%s" % (v, where, r.out[-1500:]))


# ------------------------------------------------------------------ spec -> code
def norm_key(k):
    return {x: {"none": bool(k[x]["none"]), "v": k[x]["v"]} for x in ("a", "b", "s")}


def model_op(res):
    o = {"op": res["op"], "b": res["b"], "i": res["i"], "j": res["j"], "n": res["n"],
         "key": norm_key(res["key"]), "val": list(res["val"])}
    return o


def bfs_prefixes(g):
    pre = {g.init[0]: []}
    queue = [g.init[0]]
    while queue:
        n = queue.pop(0)
        for e in g.succ(n):
            if e[2] not in pre:
                pre[e[2]] = pre[n] + [e]
                queue.append(e[2])
    return pre


def replay_path(ctx, g, path, backing, traces, metas, scale=1):
    init = bytes(g.states[g.init[0]]["mem"])
    if scale > 1:
        try:
            ar = mb.ScaledArena(backing, init, scale)
        except core.MachineryError:
            raise
        except Exception:
            return None, None          # set-up failures are recorded by the unscaled replays
    else:
        ar = mb.make_arena(backing, init, traces, metas)
    if ar is None:
        return None, "%s: arena setup failed" % backing
    tr = ar.header()
    tr["ev"] = []
    div = None
    for (_a, _args, dst) in path:
        st = g.states[dst]
        res = st["res"]
        ev = ar.apply(model_op(res))
        if ev is None:
            div = "%s: item access skipped (from_buffer view longer than its object)" % backing
            break
        tr["ev"].append(ev)
        ctx.case()
        if ev.get("stop"):
            div = "%s x%d: ffi.buffer(p, %d) has length %d" % (backing, scale, ev["n"], ev["num"])
            break
        problems = []
        if ev["st"] != res["st"]:
            problems.append("status %s, model %s" % (ev["st"], res["st"]))
        if res["op"] in ("getidx", "getslice", "fbget") and res["st"] == "ok" and ev["out"] != list(res["out"]):
            problems.append("read %r, model %r" % (ev["out"], list(res["out"])))
        if res["op"] == "frombuf" and res["st"] == "ok" and ev["num"] != res["out"][0]:
            problems.append("from_buffer length %r, model %r" % (ev["num"], res["out"][0]))
        cur = ar.snap_units() if scale > 1 else list(ar.snap())
        if cur != list(st["mem"]):
            problems.append("contents %r, model %r" % (cur, list(st["mem"])))
        if len(ar.bufs) != len(st["bufs"]) or len(ar.fbs) != len(st["fbs"]):
            problems.append("%d buffers / %d views, model %d / %d" % (len(ar.bufs), len(ar.fbs), len(st["bufs"]), len(st["fbs"])))
        if not ar.live_ok():
            problems.append("a buffer does not show the arena bytes it covers")
        if problems:
            div = "%s x%d %s: %s" % (backing, scale, {k: res[k] for k in ("op", "b", "i", "j", "n")}, "; ".join(problems))
            break
    return tr, div


def slice_dump_conf(ctx):
    return (3, 4, 5) if ctx.quick else (5, 7, 8)


def submit_dumps(ctx, jobs):
    jobs.submit("dump(Buffer N=4,1 buffer,2 steps)", "Buffer", cfg_text=machine_cfg(4, 1, 2, prune=True, view=False, props=False),
                dump=os.path.join(ctx.tmp, "bufg"), workers=4, timeout=1200)
    conf = slice_dump_conf(ctx)
    jobs.submit("dump(BufferSlice %s)" % (conf,), "BufferSlice", cfg_text=slice_cfg(*conf, props=False),
                dump=os.path.join(ctx.tmp, "bufs"), workers=4, timeout=1200)


def spec_to_code(ctx, jobs, traces, metas, divergences):
    q = ctx.quick
    # (1) histories: every edge of the machine's graph
    dump = os.path.join(ctx.tmp, "bufg")
    ctx.add_tlc("dump(Buffer N=4,1 buffer,2 steps)", jobs.result("dump(Buffer N=4,1 buffer,2 steps)"), count_states=False)
    g = tlaval.load_dot(dump + ".dot")
    seen = {(s["res"]["op"], s["res"]["st"]) for s in g.states.values()}
    need = {("buffer", "ok"), ("getidx", "ok"), ("getidx", "IndexError"), ("setidx", "ok"), ("setidx", "IndexError"),
            ("getslice", "ok"), ("getslice", "TypeError"), ("setslice", "ok"), ("setslice", "ValueError"),
            ("cwrite", "ok"), ("move", "ok"), ("frombuf", "ok"), ("frombuf", "ValueError"), ("fbget", "ok"), ("fbset", "ok")}
    if need - seen:
        raise core.MachineryError("Buffer graph lacks transitions %s (vacuous)" % sorted(need - seen))
    pre = bfs_prefixes(g)
    edges = [(n, e) for n in pre for e in g.succ(n)]
    ctx.rng.shuffle(edges)
    budget = 1000 if q else len(edges)
    for idx, (n, e) in enumerate(edges[:budget]):
        backing = mb.BACKINGS[idx % 3]
        tr, div = replay_path(ctx, g, pre[n] + [e], backing, traces, metas)
        if tr is not None:
            traces.append(tr)
            metas.append({"kind": "replay", "backing": backing})
        if div:
            divergences.append(div)
    # (1b) scaled replay: the same behaviours with every model byte rendered as K real bytes, so that the
    # model's memmove triples / buffers / slices are copies and views of 33 KB .. 280 KB
    def scalable(n, e):
        ops = [g.states[x[2]]["res"] for x in pre[n] + [e]]
        return all(r["op"] in mb.SCALED_OPS for r in ops) and any(r["op"] == "move" and r["n"] >= 1 for r in ops)
    big = [(n, e) for (n, e) in edges if scalable(n, e)]
    nbig = 45 if q else 900
    for idx, (n, e) in enumerate(big[:nbig]):
        backing = mb.BACKINGS[idx % 3]
        scale = (70000, 70000, 33000, 70000, 4096)[idx % 5]
        tr, div = replay_path(ctx, g, pre[n] + [e], backing, traces, metas, scale)
        if tr is not None:
            traces.append(tr)
            metas.append({"kind": "scaled-replay", "backing": backing, "scale": scale})
        if div:
            divergences.append(div)
    ctx.cov.setdefault("graphs", []).append({"module": "Buffer", "states": len(g.states), "edges": len(edges),
                                             "edges_replayed": min(budget, len(edges)),
                                             "edges_replayed_scaled": min(nbig, len(big))})
    # (2) the exhaustive pure cases on real objects
    dump = os.path.join(ctx.tmp, "bufs")
    conf = slice_dump_conf(ctx)
    ctx.add_tlc("dump(BufferSlice %s)" % (conf,), jobs.result("dump(BufferSlice %s)" % (conf,)), count_states=False)
    g2 = tlaval.load_dot(dump + ".dot")
    states = sorted(g2.states.items())
    ctx.rng.shuffle(states)
    budget = 800 if q else 20000
    for idx, (_sid, st) in enumerate(states[:budget]):
        c = st["c"]
        backing = mb.BACKINGS[idx % 3]
        if c["mode"] == "slice":
            n = c["n"]
            pad = 2
            init = bytes([0xE0, 0xE1]) + bytes(range(1, n + 1)) + bytes([0xE2, 0xE3]) + (b"\xE4" if n % 2 else b"")
            ar = mb.make_arena(backing, init, traces, metas)
            k = norm_key(c["key"])
            ops = [{"op": "buffer", "i": pad, "n": n}, {"op": "getslice", "b": 1, "key": k},
                   {"op": "setslice", "b": 1, "key": k, "val": [100 + x for x in range(1, c["vl"] + 1)]}]
            ops += [{"op": "getidx", "b": 1, "i": i} for i in (k["a"]["v"], k["b"]["v"])]
            ops += [{"op": "setidx", "b": 1, "i": k["b"]["v"], "val": [200]}]
        elif c["mode"] == "move":
            init = bytes(range(1, conf[2] + 1))
            if backing == "array_H" and len(init) % 2:
                backing = "bytearray"
            ar = mb.make_arena(backing, init, traces, metas)
            ops = [{"op": "move", "i": c["d"], "j": c["s"], "n": c["n"]}]
        else:
            ol = c["ol"]
            init = bytes(range(1, ol + 3))
            if backing == "array_H" and len(init) % 2:
                backing = "cdata"
            ar = mb.make_arena(backing, init, traces, metas)
            ops = [{"op": "frombuf", "i": 1, "j": ol, "n": c["isz"], "b": c["k"] + 1 if c["fx"] else 0}]
            ops += [{"op": "fbget", "b": 1, "i": 0}, {"op": "fbset", "b": 1, "i": 0, "val": list(range(60, 60 + c["isz"]))}]
        if ar is None:
            continue
        tr = ar.header()
        tr["ev"] = []
        for op in ops:
            if op["op"] in ("fbget", "fbset") and (not ar.fbs or len(ar.fbs[0]) == 0):
                continue
            e = ar.apply(op)
            if e is not None:
                tr["ev"].append(e)
                ctx.case()
                if e.get("stop"):
                    break
        traces.append(tr)
        metas.append({"kind": "case", "mode": c["mode"], "backing": backing})
    ctx.cov["graphs"].append({"module": "BufferSlice", "states": len(states), "cases_executed": min(budget, len(states))})


# ------------------------------------------------------------------ code -> spec
def rand_bound(rng, n):
    r = rng.random()
    if r < 0.12:
        return None
    if r < 0.75:
        return rng.randint(-n - 2, n + 2)
    if r < 0.9:
        return rng.choice([0, -1, 1, n, -n, n - 1, n + 1, -n - 1])
    return rng.choice([10 ** 6, -10 ** 6, 2 ** 30, -2 ** 30])


def random_trace(ctx, rng, backing, n, nops, traces=None, metas=None, scale=1):
    init = bytes(rng.getrandbits(8) for _ in range(n))
    if scale > 1:
        try:
            ar = mb.ScaledArena(backing, init, scale)
        except core.MachineryError:
            raise
        except Exception:
            return None
    else:
        ar = mb.make_arena(backing, init, traces, metas) if traces is not None else mb.BufArena(backing, init)
    if ar is None:
        return None
    tr = ar.header()
    ev = tr["ev"] = []
    for _ in range(nops):
        ops = ["buffer"] * (6 if len(ar.bufs) < 6 else 0) + ["cwrite"] * 3 + ["move"] * 8 + ["movein"] * 3 + ["moveout"] * 3
        if len(ar.fbs) < 4:
            ops += ["frombuf"] * 4
        usable = [x + 1 for x, (o_, l_) in enumerate(ar.bufdesc) if o_ + l_ <= n]
        if usable:
            ops += ["getidx"] * 6 + ["setidx"] * 6 + ["getslice"] * 12 + ["setslice"] * 14
        if ar.fbs:
            ops += ["fbget"] * 4 + ["fbset"] * 4
        if scale > 1:
            ops = [x for x in ops if x in mb.SCALED_OPS] + ["move"] * 10
        o = rng.choice(ops)
        op = {"op": o}
        if o == "buffer":
            i = rng.choice([0, 0, n, rng.randint(0, n)])
            sizes = [0, 0, 1, n - i, rng.randint(0, n - i)]
            if backing != "array_H":
                sizes.append(n - i + 1)         # one past the object: only its length is looked at
            op.update(i=i, n=rng.choice([x for x in sizes if 0 <= x <= n - i + 1]))
        elif o in ("getidx", "setidx"):
            b = rng.choice(usable)
            ln = ar.bufdesc[b - 1][1]
            i = rand_bound(rng, ln)
            op.update(b=b, i=0 if i is None else i, val=[rng.getrandbits(8)])
        elif o in ("getslice", "setslice"):
            b = rng.choice(usable)
            ln = ar.bufdesc[b - 1][1]
            a, bb = rand_bound(rng, ln), rand_bound(rng, ln)
            s = rng.choice([None, None, None, 1, 1, 2, -1, 0, 3]) if rng.random() < 0.3 else None
            k = mb.key(a, bb, s)
            sel = len(range(*slice(a, bb, None).indices(ln)))       # only to pick a value length
            vl = sel if rng.random() < 0.7 else max(0, sel + rng.choice([-1, 1, 2, -2]))
            if vl > 300:
                op = None
            else:
                op.update(b=b, key=k, val=[rng.getrandbits(8) for _ in range(vl)])
        elif o == "cwrite":
            if n == 0:
                op = None
            else:
                op.update(i=rng.randrange(n), val=[rng.getrandbits(8)])
        elif o == "move":
            cnt = rng.randint(0, min(n, 300))
            op.update(i=rng.randint(0, n - cnt), j=rng.randint(0, n - cnt), n=cnt)
            if rng.random() < 0.5 and cnt:          # force an overlap
                d = rng.randint(-cnt + 1, cnt - 1)
                j = op["i"] + d
                if 0 <= j <= n - cnt:
                    op["j"] = j
        elif o == "movein":
            cnt = rng.randint(0, min(n, 200))
            extra = rng.randint(0, 3)
            op.update(i=rng.randint(0, n - cnt), n=cnt, val=[rng.getrandbits(8) for _ in range(cnt + extra)])
        elif o == "moveout":
            cnt = rng.randint(0, min(n, 200))
            op.update(j=rng.randint(0, n - cnt), n=cnt)
        elif o == "frombuf":
            isz = rng.choice([1, 2, 3, 4, 8])
            i = rng.randint(0, n)
            ol = rng.randint(0, n - i)
            fixed = rng.random() < 0.5
            k = max(0, ol // isz + rng.choice([-1, 0, 0, 1, 1, 2])) if fixed else 0
            op.update(i=i, j=ol, n=isz, b=(k + 1) if fixed else 0, ok=rng.choice(["mv", "mv", "buf"]))
        elif o in ("fbget", "fbset"):
            b = rng.randrange(len(ar.fbs)) + 1
            ln = len(ar.fbs[b - 1])
            if ln == 0:
                op = None
            else:
                isz = mc.KINDS[ar.fbdesc[b - 1]].sz
                op.update(b=b, i=rng.randrange(ln), val=[rng.getrandbits(8) for _ in range(isz)])
        if op is None:
            continue
        e = ar.apply(op)
        if e is None:
            continue
        ev.append(e)
        ctx.case((backing, o, e["st"]))
        if e.get("stop"):
            break
    return tr


def code_to_spec(ctx, traces, metas):
    rng = ctx.rng
    ntr = 60 if ctx.quick else 1500
    for t in range(ntr):
        backing = mb.BACKINGS[t % 3]
        r = rng.random()
        n = rng.randint(0, 12) if r < 0.45 else rng.randint(13, 200) if r < 0.9 else rng.choice([1024, 4096])
        if backing == "array_H":
            n += n % 2
        nops = 40 if n < 1024 else 25
        tr = random_trace(ctx, rng, backing, n, nops, traces, metas)
        if tr is not None:
            traces.append(tr)
            metas.append({"kind": "random", "backing": backing, "n": n})
    # large objects: 3..20 units of 4 KiB .. 100 KB each (copies up to ~2 MB, every overlap direction)
    for t in range(9 if ctx.quick else 240):
        backing = mb.BACKINGS[t % 3]
        scale = (70000, 65536, 4096, 32768, 100002, 70000)[t % 6]
        n = rng.randint(3, 20 if scale > 5000 else 64)
        n += n % 2
        tr = random_trace(ctx, rng, backing, n, 18, None, None, scale)
        if tr is not None:
            traces.append(tr)
            metas.append({"kind": "random-scaled", "backing": backing, "n": n, "scale": scale})
    ctx.sample({"kind": "random buffer history", "meta": metas[-1],
                "events": [{k: e[k] for k in ("op", "b", "i", "j", "n", "st", "out")} for e in traces[-1]["ev"][:10]]}, limit=3)


def observations(ctx):
    """Behaviour the statement does not cover; recorded, never judged."""
    f, _ = mc.ffis()
    obs = {}
    a = f.new("char[]", b"abcdef")
    buf = f.buffer(a)
    for name, fn in [("slice assignment from a cdata array (length not read: _fetch_as_buffer leaves view.len unset)",
                      lambda: buf.__setitem__(slice(0, 3), f.new("char[3]", b"xyz"))),
                     ("step -1 read", lambda: buf[::-1]), ("index 2**63", lambda: buf[2 ** 63]),
                     ("slice bound 2**70", lambda: buf[0:2 ** 70]), ("del buf[0]", lambda: buf.__delitem__(0)),
                     ("memmove with n < 0", lambda: f.memmove(a, b"xy", -1)),
                     ("memmove into bytes", lambda: f.memmove(b"abc", a, 2)),
                     ("from_buffer('char *', bytearray)", lambda: f.from_buffer("char *", bytearray(3))),
                     ("from_buffer on str", lambda: f.from_buffer("char[]", "abc"))]:
        try:
            obs[name] = "accepted: %r" % (fn(),)
        except Exception as e:
            obs[name] = type(e).__name__
    ctx.cov["observations_outside_statement"] = obs


def judge(ctx, traces, metas, bad):
    for k, clause, pos in bad:
        tr = traces[k]
        e = tr["ev"][pos - 1] if 0 < pos <= len(tr["ev"]) else {}
        ctx.violation("%s:%s%s" % (clause, tr["backing"], ":units-of-%d-bytes" % tr["scale"] if tr.get("scale", 1) > 1 else ""),
                      CLAUSE.get(clause, clause),
                      {"meta": metas[k], "trace": tr, "failing_event_index": pos, "failing_event": e})


def run(ctx):
    skip = bool(os.environ.get("VERIF_MEM_SKIP_DESIGN"))      # development aid for mutation experiments only
    jobs = mc.TlcJobs()
    submit_dumps(ctx, jobs)
    if skip:
        ctx.cov["states"] = 1
    else:
        submit_design(ctx, jobs)
    traces, metas, divergences = [], [], []
    spec_to_code(ctx, jobs, traces, metas, divergences)
    nreplay = len(traces)
    code_to_spec(ctx, traces, metas)
    bad = validate(ctx, traces)
    if not skip:
        collect_design(ctx, jobs)
    judge(ctx, traces, metas, bad)
    observations(ctx)
    ctx.cov["model_divergences"] = divergences[:10]
    ctx.cov["model_divergence_count"] = len(divergences)
    if divergences:
        print("NOTE C19: %d replays left the implementation model (first: %s); verdicts come from the reference semantics"
              % (len(divergences), divergences[0]))
    ctx.cov["replayed_behaviours"] = nreplay
    ctx.cov["random_histories"] = len(traces) - nreplay
    ctx.cov["rule"] = ("evaluations = operations executed on real buffer / from_buffer / memmove objects; distinct = "
                       "(backing object kind, operation, outcome class) triples seen by the random driver")
    ctx.cov["exhaustive"] = False
    ctx.assumptions += ["memmove and buffer sizes stay inside the objects (the statement's domain); n < 0, read-only "
                        "destinations, steps other than 1, cdata as the right-hand side of a buffer slice assignment "
                        "and bounds beyond ssize_t are recorded as observations only",
                        "element representation: buf[i] is a length-1 bytes object where a bytearray gives an int"]


def replay(ctx, obj):
    rp = obj["replay"]
    t0 = rp["trace"]
    extra, em = [], []
    if t0.get("scale", 1) > 1:
        ar = mb.ScaledArena(t0["backing"], bytes(t0["mem"]), t0["scale"])
    else:
        ar = mb.make_arena(t0["backing"], bytes(t0["mem"]), extra, em)
    if ar is None:
        tr = extra[0]
    else:
        tr = ar.header()
        tr["ev"] = [x for x in (ar.apply(dict(e)) for e in t0["ev"][:rp["failing_event_index"]]) if x is not None]
    bad = validate(ctx, [tr])
    ctx.cov["states"] = max(ctx.cov["states"], 1)
    judge(ctx, [tr], [rp["meta"]], bad)
    print("replayed %d operations on %s: %s" % (len(tr["ev"]), t0["backing"],
                                               "rejected by the reference semantics (%s)" % bad[0][1] if bad else "accepted"))


def selftest(ctx):
    import copy
    tr = random_trace(ctx, ctx.rng, "bytearray", 10, 120)
    cases, want = [copy.deepcopy(tr)], ["ok"]
    for op, field, clause in [("getslice", "out", "getslice:value"), ("setslice", "chg", "setslice:memory"),
                              ("move", "chg", "memmove:memory"), ("frombuf", "num", "frombuf:length")]:
        t2 = copy.deepcopy(tr)
        for e in t2["ev"]:
            if e["op"] == op and e["st"] == "ok" and (field == "num" or e[field]):
                if field == "num":
                    e["num"] += 1
                else:
                    e[field][0] ^= 1
                cases.append(t2)
                want.append(clause)
                break
    bad = dict((k, c) for k, c, _p in validate(ctx, cases))
    got = [bad.get(k, "ok") for k in range(len(cases))]
    print("selftest verdicts:", got)
    ctx.cov["states"] = max(ctx.cov["states"], 1)
    return got == want and len(cases) >= 4


META = {
    "category": "model_checking",
    "text": "BufferOps.tla gives the reference semantics (declarative bytearray index/slice selection with "
            "length-preserving assignment, from_buffer lengths, memmove through a temporary) and a model of "
            "minibuffer.h over PySlice_Unpack/PySlice_AdjustIndices, direct_from_buffer and C memmove; TLC proves "
            "them equal for all buffer lengths <= 5 x start/stop in -7..7 or None x steps x value lengths, all "
            "in-bounds memmove triples of an 8-byte arena and all from_buffer length/item-size cases "
            "(BufferSlice.tla), checks histories of buffers, cdata stores, memmove and from_buffer views against "
            "the reference by an action property (Buffer.tla) and rejects five broken variants. Every edge of the "
            "dumped history graph and the exhaustive cases are executed on bytearray, array.array('H') and cdata "
            "char[] memory and compared with the model (status, bytes, contents, liveness of every buffer); seeded "
            "random histories with sizes up to 4 KiB are validated by TLC against the reference (Trace_Buffer.tla).",
    "note": "Trusted: TLC, CPython's buffer protocol for the backing objects. Out of the statement and only "
            "observed: steps other than 1, n < 0, read-only destinations, cdata on the right of a buffer slice "
            "assignment, bounds beyond ssize_t, sizes exceeding the objects.",
    "technique": "TLA+ equivalence + action-property refinement (TLC) + replay of every graph edge on three kinds "
                 "of backing memory + TLC trace validation of random histories",
    "design_ref": "DESIGN.md §3 C19",
}
