"""C11 - out-of-line ABI module is equivalent to the in-line FFI.

Design level : specs/Cdef.tla (declaration-environment machine + ideal projection Obs) and
               specs/CdefOol.tla (Encode = recompiler.py type table / sorted tables / 4-byte
               opcodes, Decode = ffiobj_init / cdl_4bytes / search_sorted / realize_c_type /
               lazy struct realisation).  TLC explores every sequence of <= N declaration actions
               over small pools of names and checks, clause by clause, that
               Obs(Decode(Encode(env))) = Obs(env) (documented divergence classes excepted; with
               Strict = TRUE TLC must find them), plus three broken variants that must be rejected.
Binding      : every state and every edge of the dumped graphs is a behaviour; it is rendered as
               cdef text, built as an in-line FFI and as an emitted + imported out-of-line
               module (both dlopen the same helper library), both are projected with the same
               Obs projection (harness/modes_gen.py), and TLC (specs/Trace_CdefOol.tla) re-runs
               the behaviour on the specification and gives the verdict per record: property
               clauses compare the two real modes; each mode is also compared with its own
               specification (ideal / Decode(Encode)) and differences are reported as model
               divergences.  A second driver generates long random declaration lists at real
               sizes (all primitive types, 64-bit constants, deep declarators) from ctx.rng.
"""
import importlib.util, json, os, re, sys, time, warnings
from concurrent.futures import ProcessPoolExecutor
from harness import core, tlaval
from harness import modes_gen as mg

LEVEL = "model_checking"

CFG = """SPECIFICATION OSpec
CONSTANTS
  TdNames = {%(td)s}
  Tags = {%(tags)s}
  EnumTags = {%(en)s}
  ConstNames = {%(k)s}
  FuncNames = {%(fn)s}
  GlobNames = {%(gv)s}
  Prims = {%(prims)s}
  Feat = {%(feat)s}
  MaxDecls = %(n)d
  Variants = {%(variants)s}
INVARIANT OolRefines
%(extra)s
CHECK_DEADLOCK FALSE
"""

BROKEN = ("strict", "susort", "nolen", "dollar", "negmask", "signedlowbyte", "zerowidth-as-field")


def q(names):
    return ", ".join('"%s"' % x for x in names)


def cfg(td=("t1", "t2"), tags=("s1", "s2"), en=("e1",), k=("k1",), fn=("f1",), gv=("g1",),
        prims=("int", "char"), feat=("file", "fwd"), n=2, variants=("faithful",), emit=False, probe=False):
    extra = ("CONSTRAINT EmitBeh\n" if emit else "") + ("CONSTRAINT Probe\n" if probe else "")
    return CFG % dict(td=q(td), tags=q(tags), en=q(en), k=q(k), fn=q(fn), gv=q(gv), prims=q(prims),
                      feat=q(feat), n=n, variants=q(variants), extra=extra)


# scenario configurations: name -> kwargs of cfg()
NONE = dict(td=(), tags=(), en=(), k=(), fn=(), gv=(), prims=("int",), feat=())
SCENARIOS = {
    # ---- quick tier (a few hundred states each)
    # typedef chains, forward then completed struct, FILE
    "q_types": dict(NONE, td=("t1", "t2"), tags=("s1",), feat=("file", "fwd"), n=2),
    # enums, constants, functions and globals using a typedef
    # + array lengths around the byte boundaries of the 4-byte length slot (typedefs and variables)
    "q_consts": dict(NONE, td=("t1",), en=("e1",), k=("k1",), fn=("f1",), gv=("g1",), feat=("biglen",), n=2),
    # the 64-bit boundary values as #define / static const / enumerators (enum base types up to unsigned long)
    "q_big": dict(NONE, td=("t1",), en=("e1",), k=("k1",), feat=("bigconst",), n=2),
    # anonymous aggregates, bit-fields, arrays, function pointers
    "q_rich": dict(NONE, td=("t1",), tags=("s1",), feat=("anon", "bits", "arr", "nested"), n=2),
    "q_fn": dict(NONE, td=("t1",), fn=("f1",), gv=("g1",), feat=("fnp", "file"), n=2),
    # non-vacuity: "strict" and the broken variants must be caught somewhere in here
    "sanity": dict(NONE, td=("t1",), k=("k1",), feat=("file", "arr", "anon", "bigconst", "biglen", "bits"), n=1),
    # ---- thorough tier
    "types2": dict(NONE, td=("t1", "t2"), tags=("s1", "s2"), prims=("int", "char"), feat=("file", "fwd", "union"), n=2),
    "all2": dict(td=("t1", "t2"), tags=("s1", "s2"), en=("e1",), k=("k1",), fn=("f1",), gv=("g1",),
                 prims=("int", "char"), feat=("file", "fwd"), n=2),
    "consts3": dict(NONE, td=("t1",), en=("e1",), k=("k1",), fn=("f1",), gv=("g1",), n=3),
    "rich2": dict(NONE, td=("t1",), tags=("s1",), fn=("f1",),
                  feat=("anon", "bits", "arr", "fnp", "nested", "union"), n=2),
    "types3": dict(NONE, td=("t1", "t2"), tags=("s1",), feat=("file", "fwd"), n=3),
    "all3": dict(NONE, td=("t1",), tags=("s1",), en=("e1",), k=("k1",), fn=("f1",), n=3),
}

_TUP = {}


def tuples(out, head):
    """like core.tla_tuples but tolerant of TLC's pretty printer (`<< "HEAD",`)."""
    out = re.sub(r'<<\s+"%s"' % head, '<<"%s"' % head, out)
    return core.tla_tuples(out, head)


# --------------------------------------------------------------------------- one implementation case

def module_tables(text):
    """The keyword arguments of the generated `_cffi_backend.FFI(...)` call, decoded into the shape of
    CdefOol!Encode: words as signed 32-bit integers, names as text."""
    import ast

    def w(b):
        return int.from_bytes(b[:4], "big", signed=True)
    call = [n for n in ast.walk(ast.parse(text)) if isinstance(n, ast.Call) and getattr(n.func, "attr", "") == "FFI"][0]
    kw = {k.arg: ast.literal_eval(k.value) for k in call.keywords if k.arg != "_includes"}
    t = kw.get("_types", b"")
    out = {"types": [w(t[i:i + 4]) for i in range(0, len(t), 4)], "globals": [], "structs": [], "enums": [], "typenames": []}
    g = kw.get("_globals", ())
    for i in range(0, len(g), 2):
        out["globals"].append([g[i][4:].decode(), w(g[i]), str(g[i + 1])])
    for desc in kw.get("_struct_unions", ()):
        flds = []
        for f in desc[1:]:
            op = w(f) % 256
            flds.append([(f[8:] if op == 19 else f[4:]).decode(), op, w(f) >> 8, w(f[4:8]) if op == 19 else -1])
        out["structs"].append([desc[0][8:].decode(), w(desc[0]), w(desc[0][4:8]), flds])
    for e in kw.get("_enums", ()):
        name, _, rest = e[8:].partition(b"\x00")
        out["enums"].append([name.decode(), w(e), w(e[4:8]), [x for x in rest.decode().split(",") if x]])
    for tn in kw.get("_typenames", ()):
        out["typenames"].append([tn[4:].decode(), w(tn)])
    return out


def load_module(path, modname):
    spec = importlib.util.spec_from_file_location(modname, path)
    m = importlib.util.module_from_spec(spec)
    spec.loader.exec_module(m)
    return m


def run_case(arg):
    """Build both modes for one behaviour and project them.  Runs in a worker process."""
    idx, beh, libpath, workdir, flavour = arg
    import cffi, io, contextlib
    warnings.simplefilter("ignore")
    with contextlib.redirect_stdout(io.StringIO()):        # recompile() prints "generating ..."
        return _run_case(idx, beh, libpath, workdir, flavour)


def _run_case(idx, beh, libpath, workdir, flavour):
    import cffi
    names = mg.names_of(beh)
    rec = {"id": idx, "beh": beh, "emit": "ok", "same": {}}
    text = mg.render_cdef(beh)
    try:
        # in-line FFI: one cdef() per declaration (flavour 1) or a single cdef() (flavour 0)
        fi = cffi.FFI()
        if flavour & 1:
            for a in beh:
                fi.cdef(mg.render(a))
        else:
            fi.cdef(text)
        li = fi.dlopen(libpath)
    except Exception as e:
        rec["inline_error"] = "%s: %s" % (type(e).__name__, e)
        return rec
    keep_i, keep_o = {}, {}
    if flavour & 2:
        rec["inl"] = mg.observe(fi, li, names, keep_i)       # observe first, emit afterwards
    modname = "m_c11_%d_%d" % (os.getpid(), idx)
    path = os.path.join(workdir, modname + ".py")
    try:
        # the module is written from the same FFI object (flavour 4) or from a fresh one
        fe = fi
        if not flavour & 4:
            fe = cffi.FFI()
            fe.cdef(text)
        fe.set_source(modname, None)
        fe.emit_python_code(path)
    except Exception as e:
        rec["emit"] = "error:" + type(e).__name__
        rec["emit_msg"] = str(e)[:300]
    if not flavour & 2:
        rec["inl"] = mg.observe(fi, li, names, keep_i)
    if rec["emit"] == "ok":
        try:
            m = load_module(path, modname)
            fo = m.ffi
            lo = fo.dlopen(libpath)
            rec["ool"] = mg.observe(fo, lo, names, keep_o)
            rec["same"] = mg.same_facts(keep_i, keep_o)
            with open(path) as f:
                rec["module_text"] = f.read()
            rec["tables"] = module_tables(rec["module_text"])
        except Exception as e:
            rec["emit"] = "error:import:" + type(e).__name__
            rec["emit_msg"] = str(e)[:300]
        finally:
            try:
                os.unlink(path)
            except OSError:
                pass
    if "ool" not in rec:
        rec["ool"] = rec["inl"]
    rec.setdefault("tables", {})
    return rec


def run_cases(ctx, behs, libpath, jobs, first_id=1):
    work = os.path.join(ctx.tmp, "mods")
    os.makedirs(work, exist_ok=True)
    args = [(i + first_id, b, libpath, work, ctx.rng.randrange(8)) for i, b in enumerate(behs)]
    def crashed(a, exitcode):
        # the process died while building / observing this behaviour (the in-line FFI alone never does)
        return {"id": a[0], "beh": a[1], "emit": "error:crash(exit code %s)" % exitcode, "emit_msg": "worker process died",
                "inl": {}, "ool": {}, "same": {}, "tables": {}}
    return mg.run_parallel(run_case, args, jobs, crashed)


# --------------------------------------------------------------------------- verdicts by TLC

CLAUSE = {
    "td": "typeof(<typedef>) differs between the in-line FFI and the imported module",
    "su": "struct/union differs (kind, name, size, alignment or fields)",
    "en": "enum differs (name, enumerators, size or signedness)",
    "k": "integer constant / enumerator value differs",
    "fn": "type of a function of the dlopen()ed lib differs",
    "gv": "type of a global variable of the dlopen()ed lib differs",
    "addr": "address of a function / global variable differs",
    "lt": "list_types() differs",
    "same": "a non-aggregate ctype is not the same object in both modes",
    "emit": "emit_python_code()/import failed for a cdef the in-line FFI accepts",
}


def validate(ctx, recs, name="Trace_CdefOol"):
    """TLC gives the verdicts; returns {id: (V, D)}."""
    out = {}
    slim = [{k: r[k] for k in ("id", "beh", "inl", "ool", "same", "emit", "tables")} for r in recs]
    for i in range(0, len(slim), 1200):
        chunk = slim[i:i + 1200]
        path = os.path.join(ctx.tmp, "trace_%d.json" % len(ctx.cov["tlc_runs"]))
        core.write_json(path, chunk)
        r = core.tlc("Trace_CdefOol", workers=1, env={"TRACE_FILE": path, "JAVA_TOOL_OPTIONS": "-Xss256m"}, timeout=1500)
        ctx.add_tlc(name, r, count_states=False)
        got = tuples(r.out, "VERDICT")
        if len(got) != len(chunk):
            raise core.MachineryError("trace validation incomplete: %d verdicts for %d records\n%s" % (
                len(got), len(chunk), r.out[-3000:]))
        for t in got:
            out[int(t[0])] = (tlaval.parse_value(t[1]), tlaval.parse_value(t[2]))
    return out


def judge(ctx, recs, verdicts, origin):
    divs = []
    guard_fail = 0
    for r in recs:
        if "inline_error" in r:
            # the specification's guards say the in-line FFI accepts this cdef
            divs.append(("inl", "cdef-rejected", r["inline_error"][:200]))
            continue
        V, D = verdicts[r["id"]]
        ctx.validated()
        for clause, item, cls in sorted(V):
            if clause == "guard":
                guard_fail += 1
                continue
            key = cls if cls else "%s:unexplained" % clause
            ctx.violation(key, "%s [%s]" % (CLAUSE.get(clause, clause), item),
                          {"origin": origin, "beh": r["beh"], "cdef": mg.render_cdef(r["beh"]),
                           "clause": clause, "item": item,
                           "inl": r["inl"], "ool": r["ool"], "same": r["same"], "emit": r["emit"],
                           "emit_msg": r.get("emit_msg")})
        for d in sorted(D):
            divs.append(tuple(d) + (mg.render_cdef(r["beh"]),))
    return divs, guard_fail


# --------------------------------------------------------------------------- random driver (real sizes)

ALL_PRIMS = ["char", "signed char", "unsigned char", "_Bool", "short", "unsigned short", "int", "unsigned int",
             "long", "unsigned long", "long long", "unsigned long long", "float", "double",
             "int8_t", "uint8_t", "int16_t", "uint16_t", "int32_t", "uint32_t", "int64_t", "uint64_t",
             "size_t", "ssize_t", "intptr_t", "uintptr_t", "ptrdiff_t", "wchar_t"]


class Gen:
    """Random well-formed behaviours, much larger than TLC's pools.  Tracks just enough of the
    environment to respect the guards of Cdef.tla (TLC re-checks them: verdict 'guard')."""
    def __init__(self, rng, c_safe=False, nested=True, unnamed_bits=False):
        self.rng = rng
        self.unnamed_bits = unnamed_bits
        self.c_safe = c_safe
        self.nested = nested
        self.td = {}         # name -> resolved term
        self.su = {}         # (kind, tag) -> complete?
        self.kind_of = {}    # tag -> kind
        self.en = []
        self.consts = set()
        self.syms = set()
        self.beh = []
        self.susize = {}
        self.frozen = set()      # aggregates that came in through include(): not completed here
        self.nfn = self.ngv = 0

    def res(self, t):
        k = t[0]
        if k == "td":
            return self.td[t[1]]
        if k in ("ptr",):
            return ["ptr", self.res(t[1])]
        if k == "arr":
            return ["arr", self.res(t[1]), t[2]]
        if k == "fnp":
            return ["fnp", self.res(t[1]), [self.res(a) for a in t[2]], t[3]]
        return t

    PRIM_SIZE = {"char": 1, "signed char": 1, "unsigned char": 1, "_Bool": 1, "short": 2, "unsigned short": 2,
                 "int8_t": 1, "uint8_t": 1, "int16_t": 2, "uint16_t": 2, "int": 4, "unsigned int": 4, "float": 4,
                 "int32_t": 4, "uint32_t": 4, "wchar_t": 4}
    LIMIT = 1 << 20          # TLC integers are 32-bit and the layout model counts bits

    def approx_size(self, rt):
        """upper bound of sizeof (resolved term); keeps the model's arithmetic inside 32 bits"""
        k = rt[0]
        if k == "prim":
            return self.PRIM_SIZE.get(rt[1], 8)
        if k == "arr":
            return max(rt[2], 0) * self.approx_size(rt[1])
        if k in ("struct", "union"):
            return self.susize.get((k, rt[1]), 8)
        return 8

    def complete(self, rt):
        k = rt[0]
        if k in ("prim", "ptr", "fnp", "enum"):
            return True
        if k == "arr":
            return rt[2] >= 0 and self.complete(rt[1])
        if k in ("struct", "union"):
            return self.su.get((k, rt[1]), False)
        return False

    def tag(self, fresh_ok=True):
        r = self.rng
        known = list(self.kind_of)
        if known and (not fresh_ok or r.random() < 0.7):
            g = r.choice(known)
            return [self.kind_of[g], g]
        g = "s%d" % (len(known) + 1)
        kind = r.choice(["struct", "struct", "union"])
        return [kind, g]

    def leaf(self, byval):
        r = self.rng
        while True:
            c = r.randrange(10)
            if c < 4:
                return ["prim", r.choice(ALL_PRIMS)]
            if c < 6 and self.td:
                t = ["td", r.choice(sorted(self.td))]
                if not byval or self.complete(self.res(t)):
                    return t
            elif c < 8:
                t = self.tag()
                if not byval or self.su.get((t[0], t[1]), False):
                    return t
            elif c == 8 and self.en:
                return ["enum", r.choice(self.en)]
            elif c == 9 and not byval:
                return ["file"] if r.random() < 0.6 else ["void"]

    def ty(self, depth=0, byval=True, arr_ok=True):
        r = self.rng
        c = r.random()
        if depth >= 3 or c < 0.4:
            return self.leaf(byval)
        if c < 0.7:
            return ["ptr", self.ty(depth + 1, byval=False)]
        if c < 0.8 and arr_ok:
            item = self.ty(depth + 1, byval=True)
            # lengths around the byte boundaries of the 4-byte length slot of generated modules
            lens = [1, 2, 3, 7, 100, 127, 128, 130, 200, 255, 256, 1000, 65535, 65536, 65736]
            n = r.choice(lens)
            while n > 1 and n * self.approx_size(self.res(item)) > self.LIMIT:
                n = lens[lens.index(n) - 1]
            return ["arr", item, n]
        if c < 0.9:
            n = r.randrange(0, 4)
            args = [self.ty(depth + 1, byval=True, arr_ok=False) for _ in range(n)]
            res = ["void"] if r.random() < 0.3 else self.ty(depth + 1, byval=True, arr_ok=False)
            return ["fnp", res, args, bool(args) and r.random() < 0.2]
        return self.leaf(byval)

    def note(self, t):
        for kind, g in mg.sus_of(t):
            self.kind_of.setdefault(g, kind)
            self.su.setdefault((kind, g), False)

    def bigval(self):
        r = self.rng
        c = r.randrange(6)
        if c == 0:
            return str(r.randrange(-5, 100))
        if c == 1:
            return str(r.choice([2**31 - 1, 2**31, 2**32 - 1, 2**32, -2**31, -2**31 - 1]))
        if c == 2:
            return str(r.choice([2**63 - 1, 2**63, 2**64 - 1, -2**63]))
        if c == 3:
            return str(r.randrange(-2**63, 2**64))
        return str(r.randrange(-2**31, 2**31))

    def step(self):
        r = self.rng
        c = r.randrange(12)
        if c < 3:
            n = "t%d" % (len(self.td) + 1)
            t = self.ty(byval=False)
            if t == ["void"]:
                return
            self.note(t)
            self.beh.append({"a": "DeclTypedef", "n": n, "t": t})
            self.td[n] = self.res(t)
        elif c < 6:
            key = self.tag()
            if self.su.get((key[0], key[1]), False) or (key[0], key[1]) in self.frozen:
                return
            self.kind_of.setdefault(key[1], key[0])
            nf = r.randrange(1, 6)
            fs = []
            for i in range(nf):
                t = self.ty(byval=True)
                if tuple(key) in [tuple(x) for x in mg.sus_of(self.res(t))] and self.res(t)[0] not in ("ptr", "fnp"):
                    t = ["ptr", key]
                bits = -1
                if self.res(t) in (["prim", "int"], ["prim", "unsigned int"]) and r.random() < 0.3 and key[0] == "struct":
                    bits = r.randrange(1, 33)
                if self.nested and bits < 0 and r.random() < 0.12:
                    # an anonymous struct/union defined in place: cparser names it "$N"
                    inner = []
                    for j in range(r.randrange(1, 4)):
                        it = self.ty(1, byval=True)
                        if tuple(key) in [tuple(x) for x in mg.sus_of(self.res(it))] and self.res(it)[0] not in ("ptr", "fnp"):
                            it = ["ptr", key]
                        inner.append(["g%d" % j, it, -1])
                    t = ["anon", r.choice(["struct", "union"]), inner]
                fs.append(["f%d" % i, t, bits])
            if self.unnamed_bits and key[0] == "struct" and r.random() < 0.25:
                # unnamed bit-fields: "int :0;", "unsigned :3;", "long long :0;"
                pad = r.choice([["", ["prim", "int"], 0], ["", ["prim", "unsigned int"], r.randrange(1, 33)],
                                ["", ["prim", "long long"], 0], ["", ["prim", "unsigned int"], 0]])
                fs.insert(r.randrange(0, len(fs) + 1), pad)
            for f in fs:
                self.note(f[1])
            total = sum(8 + (sum(8 + self.approx_size(self.res(x[1])) for x in f[1][2]) if f[1][0] == "anon"
                             else self.approx_size(self.res(f[1]))) for f in fs)
            if total > self.LIMIT:
                return
            if r.random() < 0.15:
                n = "t%d" % (len(self.td) + 1)
                self.beh.append({"a": "DeclTypedefAnon", "n": n, "kind": key[0], "fs": fs})
                self.td[n] = [key[0], "$" + n]
                self.su[(key[0], "$" + n)] = True
                self.susize[(key[0], "$" + n)] = total
                if key[1] not in [g for (_, g) in self.su]:
                    self.kind_of.pop(key[1], None)
            else:
                self.beh.append({"a": "DeclStruct", "kind": key[0], "tag": key[1], "fs": fs})
                self.su[(key[0], key[1])] = True
                self.susize[(key[0], key[1])] = total
        elif c == 6:
            key = self.tag()
            if (key[0], key[1]) in self.su:
                return
            self.kind_of[key[1]] = key[0]
            self.su[(key[0], key[1])] = False
            self.beh.append({"a": "DeclFwd", "kind": key[0], "tag": key[1]})
        elif c == 7:
            tag = "e%d" % (len(self.en) + 1)
            n = r.randrange(1, 5)
            names = ["%s_%d" % (tag.upper(), i) for i in range(n)]
            style = r.randrange(3)
            if style == 0:
                vals = [str(i) for i in range(n)]
            elif style == 1:
                vals = [str(r.randrange(-100, 100)) for _ in range(n)]
            else:
                lo = r.random() < 0.5
                vals = [str(r.randrange(-2**31, 2**31) if lo else r.randrange(0, 2**32)) for _ in range(n)]
            self.en.append(tag)
            self.consts.update(names)
            self.beh.append({"a": "DeclEnum", "tag": tag, "names": names, "vals": vals})
        elif c == 8:
            n = "K%d" % (len(self.consts) + 1)
            self.consts.add(n)
            form = r.choice(["define", "static"])
            v = self.bigval()
            if self.c_safe:
                # the same text must also be valid C with the same value (API mode)
                if form == "static" and not -2**31 <= int(v) < 2**31:
                    form = "define"
                if int(v) == -2**63:
                    v = str(-2**63 + 1)
            self.beh.append({"a": "DeclConst", "form": form, "n": n, "val": v})
        elif c < 11:
            if self.nfn >= len(mg.POOL_FUNCS):
                return
            n = r.randrange(0, 4)
            args = [self.ty(1, byval=True, arr_ok=False) for _ in range(n)]
            res = ["void"] if r.random() < 0.3 else self.ty(1, byval=True, arr_ok=False)
            t = ["fnp", res, args, bool(args) and r.random() < 0.15]
            self.note(t)
            name = mg.POOL_FUNCS[self.nfn]
            self.nfn += 1
            self.beh.append({"a": "DeclFunc", "n": name, "res": res, "args": args, "ell": t[3]})
        else:
            if self.ngv >= len(mg.POOL_GLOBS):
                return
            t = self.ty(byval=True)
            self.note(t)
            name = mg.POOL_GLOBS[self.ngv]
            self.ngv += 1
            self.beh.append({"a": "DeclGlobal", "n": name, "t": t})


def wide_behaviour(rng, narrays=45, nfuncs=8, nargs=18):
    """A cdef whose type table has about 300 slots, so that the index of the slot of every struct /
    enum / typedef, type indexes in fields and signatures, and array lengths pass 0x80 in their low
    byte and 0x100.  The function sequences come first in the table (nfuncs * (nargs + 2) slots, cheap
    for the model: few distinct types), so everything else sits behind them: `narrays` typedefs of char
    arrays of distinct lengths (2 slots each), enums, structs with fields of these types, variables."""
    lens = [127, 128, 130, 200, 255, 256, 1000, 65535, 65736]
    pool = [n for n in range(1, 4 * narrays) if n not in lens]
    rng.shuffle(pool)
    lens = (lens + pool)[:narrays]
    rng.shuffle(lens)
    beh = []
    for i, n in enumerate(lens):
        beh.append({"a": "DeclTypedef", "n": "t%d" % (i + 1), "t": ["arr", ["prim", "char"], n]})
    tds = ["t%d" % (i + 1) for i in range(narrays)]
    for e in range(1, 4):
        beh.append({"a": "DeclEnum", "tag": "e%d" % e, "names": ["E%d_%d" % (e, j) for j in range(2)],
                    "vals": [str(rng.randrange(-5, 100)) for _ in range(2)]})
    for k in range(1, 7):
        kind = "union" if k == 3 else "struct"
        fs = [["a", ["td", rng.choice(tds)], -1], ["b", ["ptr", ["td", rng.choice(tds)]], -1],
              ["c", ["enum", "e%d" % rng.randrange(1, 4)], -1], ["d", ["prim", "int"], rng.randrange(1, 32) if kind == "struct" else -1]]
        if k > 1:
            fs.append(["e", ["ptr", ["struct" if k - 1 != 3 else "union", "s%d" % (k - 1)]], -1])
        beh.append({"a": "DeclStruct", "kind": kind, "tag": "s%d" % k, "fs": fs})
    argpool = [["prim", "int"], ["prim", "double"], ["ptr", ["prim", "char"]], ["enum", "e1"], ["enum", "e3"],
               ["ptr", ["struct", "s1"]], ["ptr", ["union", "s3"]], ["struct", "s2"], ["ptr", ["td", tds[0]]],
               ["ptr", ["td", tds[-1]]], ["ptr", ["void"]]]
    for f in range(nfuncs):
        beh.append({"a": "DeclFunc", "n": mg.POOL_FUNCS[f], "res": rng.choice(argpool),
                    "args": [rng.choice(argpool) for _ in range(nargs)], "ell": False})
    for g in range(3):
        beh.append({"a": "DeclGlobal", "n": mg.POOL_GLOBS[g], "t": ["td", rng.choice(tds)]})
    return beh


def random_behaviour(rng, length):
    g = Gen(rng, unnamed_bits=True)
    tries = 0
    while len(g.beh) < length and tries < 10 * length:
        g.step()
        tries += 1
    return g.beh


# --------------------------------------------------------------------------- the check

def run(ctx):
    quick = ctx.quick
    jobs = int(os.environ.get("VERIF_JOBS", "8"))
    libpath = mg.build_pool_lib(core, ctx.tmp)
    t0 = time.time()

    # ---------------------------------------------------------------- design level
    scen = ["q_types", "q_consts", "q_big", "q_rich", "q_fn"] if quick else ["q_types", "q_consts", "q_big", "q_rich", "q_fn", "types2",
                                                             "all2", "consts3", "rich2", "types3", "all3"]
    dumps, dumps_n = {}, {}

    def tlc_job(name):
        # q_types (two typedef names + FILE) also carries the recompiler before the repair of "two
        # typedefs of FILE" (variant filetwice: one _IO_FILE entry per typedef) as a second initial
        # state: TLC must reject it (emit fails) while the repaired transcription satisfies the invariant
        extra = dict(variants=("faithful", "filetwice"), probe=True) if name == "q_types" else {}
        r = core.tlc("CdefOol", cfg_text=cfg(emit=True, **dict(SCENARIOS[name], **extra)), workers=1, timeout=1700)
        hs = sorted(set(t[0] for t in tuples(r.out, "BEH")))      # a successor generated twice is printed twice
        return name, r, [mg.hist_to_beh(tlaval.parse_value(h)) for h in hs]

    def sanity_job():
        # one run for all deliberately wrong variants: each must be caught (constraint Probe
        # prints it), while the faithful variant in the same run satisfies the invariant
        return core.tlc("CdefOol", cfg_text=cfg(probe=True, variants=("faithful",) + BROKEN, **SCENARIOS["sanity"]),
                        workers=1, timeout=1700)

    from concurrent.futures import ThreadPoolExecutor
    with ThreadPoolExecutor(max(2, min(jobs, 8))) as ex:
        f_sanity = ex.submit(sanity_job)
        f_design = [ex.submit(tlc_job, s) for s in scen]
        for f in f_design:
            name, r, dump = f.result()
            ctx.add_tlc("MC_CdefOol(%s)" % name, r)
            dumps[name] = dump
            dumps_n[name] = r.distinct // (2 if name == "q_types" else 1)
            if name == "q_types":
                c2 = [t[1] for t in tuples(r.out, "CAUGHT") if core.unq(t[0]) == "filetwice"]
                if not c2 or "emit" not in c2[0]:
                    raise core.MachineryError("variant 'filetwice' of the model was not rejected by TLC")
                filetwice = c2[0][:200]
        r = f_sanity.result()
        ctx.add_tlc("sanity(strict + 3 broken variants)", r, count_states=False)
        caught = {}
        for t in tuples(r.out, "CAUGHT"):
            caught.setdefault(core.unq(t[0]), t[1])
        ctx.cov["variants_caught"] = {v: caught[v][:200] for v in caught}
        for v in BROKEN:
            if v not in caught:
                raise core.MachineryError("variant %r of the model was not rejected by TLC" % v)
        ctx.cov["variants_caught"]["filetwice"] = filetwice
        if "lt" not in caught["strict"]:
            raise core.MachineryError("strict run does not show the list_types()/FILE divergence: %s" % caught["strict"])
    need = {"DeclTypedef", "DeclTypedefAnon", "DeclStruct", "DeclFunc", "DeclGlobal", "DeclEnum", "DeclConst", "DeclFwd"}

    # ---------------------------------------------------------------- spec -> code
    behs, keys = [], set()
    labels = {}
    for name in scen:
        cand = dumps[name]
        if len(cand) != dumps_n[name]:
            raise core.MachineryError("%s: %d behaviours printed, %d states" % (name, len(cand), dumps_n[name]))
        ctx.rng.shuffle(cand)
        # every single declaration the scenario offers (e.g. each boundary value) + a sample of the rest
        ones = [b for b in cand if len(b) == 1]
        cand = ones + [b for b in cand if len(b) != 1][:max(0, (120 if quick else 700) - len(ones))]
        for b in cand:
            kk = mg.beh_key(b)
            if b and kk not in keys:
                keys.add(kk)
                behs.append(b)
                for a in b:
                    labels[a["a"]] = labels.get(a["a"], 0) + 1
    missing = need - set(labels)
    if missing:
        raise core.MachineryError("actions never taken in the dumped graphs: %s" % sorted(missing))
    ctx.cov["actions_replayed"] = labels
    # ---------------------------------------------------------------- code -> spec at real sizes
    nrand = 24 if quick else 120
    rbehs = [random_behaviour(ctx.rng, ctx.rng.randrange(3, 11 if quick else 18)) for _ in range(nrand)]
    # two wide ones per run: type tables of > 130 and > 260 slots
    # wide ones: type tables of > 260 slots (slot indexes on both sides of 0x80 and 0x100)
    nwide = 1 if quick else 6
    rbehs += [wide_behaviour(ctx.rng) for _ in range(nwide)]
    allrecs = run_cases(ctx, behs + rbehs, libpath, jobs)
    for r in allrecs[-nwide:]:
        nslots = len(r.get("tables", {}).get("types", []))
        if r["emit"] == "ok" and nslots <= 260:
            raise core.MachineryError("wide behaviour has only %d type slots" % nslots)
    ctx.cov["wide_type_tables"] = [len(r.get("tables", {}).get("types", [])) for r in allrecs[-nwide:]]
    recs, rrecs = allrecs[:len(behs)], allrecs[len(behs):]
    for r in allrecs:
        ctx.case(mg.beh_key(r["beh"]))
    # one TLC start judges everything
    verdicts = validate(ctx, [r for r in allrecs if "inline_error" not in r])
    divs, gf = judge(ctx, recs, verdicts, "TLC graph")
    if gf:
        raise core.MachineryError("%d behaviours taken from TLC were refused by the guards in trace validation" % gf)
    for r in recs[:3]:
        ctx.sample({"kind": "TLC behaviour -> cdef -> in-line FFI + out-of-line module",
                    "cdef": mg.render_cdef(r["beh"]), "module": r.get("module_text", "")[:600],
                    "verdict": [sorted(map(list, verdicts[r["id"]][0])), sorted(map(list, verdicts[r["id"]][1]))]
                    if r["id"] in verdicts else None}, limit=3)
    rdivs, rgf = judge(ctx, rrecs, verdicts, "random generator")
    if rgf > nrand // 3 or any(c == "guard" for r in rrecs[-nwide:] for (c, _, _) in verdicts[r["id"]][0]):
        raise core.MachineryError("random generator: %d of %d behaviours violate the specification's guards" % (rgf, nrand))
    ctx.cov["random_guard_rejects"] = rgf
    if rrecs:
        ctx.sample({"kind": "random behaviour at real sizes", "cdef": mg.render_cdef(rrecs[0]["beh"])}, limit=4)

    divs += rdivs
    ctx.cov["model_divergences"] = [list(d) for d in divs[:10]]
    ctx.cov["model_divergence_count"] = len(divs)
    if divs:
        print("NOTE C11: %d observations differ from the specification although the two modes agree "
              "(first: %r); verdicts come from comparing the modes" % (len(divs), divs[0][:3]))
    ctx.cov["rule"] = ("distinct = distinct behaviours (declaration sequences) built in both modes; all are "
                       "non-trivial: at least one declaration, every declared name is projected in both modes")
    ctx.cov["exhaustive"] = False
    ctx.assumptions += [
        "C has one tag namespace: no cdef declares 'struct x' and 'union x' together",
        "integer constants fit 64 bits",
        "functions/variables are looked up in one helper library exporting all pool names; only their "
        "types and addresses are compared (calling them is C13's subject)",
        "ffi.addressof(lib, array_variable) is the array in-line and a pointer to it in generated modules; "
        "the variable's own type and its address are compared",
    ]


def replay(ctx, obj):
    rp = obj["replay"]
    libpath = mg.build_pool_lib(core, ctx.tmp)
    os.makedirs(os.path.join(ctx.tmp, "mods"), exist_ok=True)
    rec = run_case((1, rp["beh"], libpath, os.path.join(ctx.tmp, "mods"), 0))
    print(mg.render_cdef(rp["beh"]))
    if "inline_error" in rec:
        print("in-line FFI rejects the cdef: " + rec["inline_error"])
        ctx.cov["states"] = 1
        return
    v = validate(ctx, [rec])
    ctx.cov["states"] = 1
    for clause, item, cls in sorted(v[1][0]):
        if clause == "guard":
            print("the recorded behaviour is refused by the specification's guards (action %s): it says nothing about cffi" % item)
            continue
        print("clause %s item %s class %r" % (clause, item, cls))
        ctx.violation(cls if cls else "%s:unexplained" % clause, "%s [%s]" % (CLAUSE.get(clause, clause), item), rp)
    print("replayed: %s" % ("still violated" if [x for x in v[1][0] if x[0] != "guard"] else "accepted by the specification"))


def selftest(ctx):
    """Flip one observed value of one mode: TLC must report exactly that clause."""
    libpath = mg.build_pool_lib(core, ctx.tmp)
    os.makedirs(os.path.join(ctx.tmp, "mods"), exist_ok=True)
    beh = [mg.action("DeclStruct", ("struct", "s1", (("a", ("prim", "int"), -1), ("b", ("prim", "char"), -1)))),
           mg.action("DeclConst", ("define", "k1", "7")),
           mg.action("DeclTypedef", ("t1", ("ptr", ("prim", "int"))))]
    rec = run_case((1, beh, libpath, os.path.join(ctx.tmp, "mods"), 0))
    ok1 = validate(ctx, [rec])[1] == (frozenset(), frozenset())
    rec["ool"]["su"]["struct s1"]["fields"][1][2] = 8        # offset of b
    v2 = validate(ctx, [rec])[1]
    ok2 = ("su", "struct s1", "") in v2[0]
    rec["ool"]["su"]["struct s1"]["fields"][1][2] = 4
    rec["ool"]["k"]["k1"] = "8"
    v3 = validate(ctx, [rec])[1]
    ok3 = ("k", "k1", "") in v3[0] and ("su", "struct s1", "") not in v3[0]
    return ok1 and ok2 and ok3


META = {
    "category": "model_checking",
    "text": "TLC explores every sequence of up to 3 declaration actions (typedef chains, forward/complete/anonymous "
            "structs and unions, bit-fields, enums, constants, functions, globals, FILE) over small pools of names "
            "and checks that a transcription of recompiler.py's type table / sorted tables / 4-byte opcodes followed "
            "by a transcription of ffiobj_init / search_sorted / realize_c_type gives the same projection Obs as the "
            "declaration environment itself; every state and edge of the explored graphs, and thousands of random "
            "declaration lists at real sizes, are rendered as cdef text, built in-line and as an emitted, imported "
            "out-of-line module, projected with the same Obs and judged by TLC re-running the behaviour on the "
            "specification.",
    "note": "Verdicts compare the two real modes clause by clause (typeof identity for non-aggregates; kind, name, "
            "size, alignment, fields of aggregates; enumerators; constants; list_types(); types and addresses in the "
            "dlopen()ed lib); each mode is additionally compared with its specification and differences are reported "
            "as model divergences. Trusted: TLC, the Obs projection code shared by both modes, pycparser.",
    "technique": "TLA+ refinement (TLC, Decode(Encode(env)) vs ideal projection) + replay of TLC behaviours in both "
                 "modes + TLC trace validation",
    "design_ref": "DESIGN.md §3 C11",
}
