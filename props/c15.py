"""C15 — character arrays and strings round-trip, including the terminator.

Design level : specs/TextIdeal.tla (the statement as operators and per-clause guards),
               specs/Text.tla (operator-per-C-function model of wchar_helper_3.h,
               convert_array_from_object, direct_newp, b_string, b_unpack and a machine that
               repeatedly stores strings into / pokes units of one character array).  TLC checks
               every clause on every reachable (memory, operation) pair of the bound, for the
               model of the pinned code ("faithful"), for the proposed repair ("fixed") and for
               three deliberately broken variants that must be rejected.  Two violations are
               *expected* from the faithful model and are required to be exactly the ones
               recorded as findings: the missing terminator of the wide converters, and the
               lone-surrogate-pair round trip of 16-bit types.
Binding      : spec -> code: the complete state graph of a small bound is dumped; every initial
               state (ffi.new), every Assign edge and every read (ffi.string for all maxlen,
               ffi.unpack for all n) of every state is executed on real cdata of every character
               type, through pointer-to-array, field, row and struct-initializer assignment, with
               memory prepared/observed as raw units through ffi.buffer.
               code -> spec: a seeded driver at real sizes (arrays to 64 units, BMP / astral /
               lone-surrogate code points, arbitrary previous contents).
               All records are judged by TLC against the clauses of TextIdeal (Trace_Text.tla);
               differences from the implementation model are NOTEs.
"""
import os
from harness import core, tlaval
from harness.mem2_common import batch_verdicts, tlc_many, counterexample_states, cfg_text, action_counts
from harness import mem2_text as mt
from harness.mem2_child import run_child

LEVEL = "model_checking"

INV_ALWAYS = ["PrefixWritten", "TerminatorWritten1", "TailUnchanged", "NewLength", "RoundTrip",
              "StopsAtFirstZero", "UnpackExact", "NoOverflow", "FromChar16Len", "Rejected",
              "EncodeDecode", "DecodeEncode"]

CLAUSE = {
    "new.raised": "ffi.new with a fitting string initializer, or ffi.string of its result, raised",
    "new.length": "ffi.new('T[]', s) did not allocate len(units(s)) + 1 units",
    "new.units": "ffi.new did not store the units of the initializer string",
    "new.terminator:char": "ffi.new with a shorter string left no zero unit after it",
    "new.terminator:wide": "ffi.new with a shorter string left no zero unit after it",
    "new.zerofill": "ffi.new left non-zero units after the terminator",
    "roundtrip": "ffi.string(ffi.new('T[]', s)) != s",
    "roundtrip:lonepair16": "ffi.string(ffi.new('char16_t[]', s)) != s for s containing a lone high surrogate "
                            "followed by a lone low surrogate",
    "assign.raised": "assigning a string shorter than the array raised",
    "assign.units": "assignment did not store the units of the string",
    "assign.terminator:char": "assignment of a shorter string wrote no terminating zero unit",
    "assign.terminator:wide": "assignment of a shorter string wrote no terminating zero unit",
    "assign.tail": "assignment of a shorter string changed elements after the terminator",
    "string.raised": "ffi.string raised on valid units or returned an object that is not a valid str/bytes",
    "string.stop": "ffi.string did not stop at the first zero unit within maxlen / the array length",
    "unpack.raised": "ffi.unpack raised on valid units or returned an object that is not a valid str/bytes",
    "unpack.value": "ffi.unpack did not return the decoding of exactly `length` units",
    "unpack.units": "ffi.unpack did not return exactly `length` units",
}


def mc_cfg(variant, widths, maxl, maxs, cpset, invs):
    return cfg_text("Spec", {"Widths": set(widths), "MaxL": maxl, "MaxS": maxs, "CPs": set(cpset),
                             "Variant": variant}, invs)


def graph_bound(ctx):
    return dict(widths=[1, 2, 4], maxl=3 if ctx.quick else 4, maxs=2, cpset=[65, 55296, 56320, 65536])


# ------------------------------------------------------------------ design level
def design_level(ctx):
    quick = ctx.quick
    small = dict(widths=[1, 2, 4], maxl=3, maxs=2, cpset=[65, 55296, 56320, 65536])
    gb = graph_bound(ctx)
    dumpf = os.path.join(ctx.tmp, "text_graph_faithful")
    dumpx = os.path.join(ctx.tmp, "text_graph_fixed")
    jobs = []
    if quick:
        # quick tier: the model-checked bound is the bound whose graph is replayed, so the two runs also dump it
        mains = [("MC_Text(faithful;W124,L<=3,S<=2,4cp)", gb)]
        jobs.append((mains[0][0], dict(module="Text", cfg_text=mc_cfg("faithful", invs=INV_ALWAYS, **gb), workers=4,
                                       coverage=True, dump=dumpf, timeout=2400)))
        jobs.append(("MC_Text(fixed)", dict(module="Text", workers=4, timeout=2400, dump=dumpx, cfg_text=mc_cfg(
            "fixed", invs=INV_ALWAYS + ["TerminatorWritten"], **gb))))
    else:
        full = [65, 233, 65535, 55296, 56320, 65536, 1114111]
        mains = [("MC_Text(faithful;W%d,L<=4,S<=2,7cp)" % w, dict(widths=[w], maxl=4, maxs=2, cpset=full))
                 for w in (1, 2, 4)]
        mains += [("MC_Text(faithful;W%d,L<=3,S<=3,7cp)" % w, dict(widths=[w], maxl=3, maxs=3, cpset=full))
                  for w in (2, 4)]
        mains += [("MC_Text(faithful;W%d,L<=5,S<=2,5cp)" % w,
                   dict(widths=[w], maxl=5, maxs=2, cpset=[65, 55296, 56320, 65536, 65535])) for w in (2, 4)]
        for name, b in mains:
            jobs.append((name, dict(module="Text", cfg_text=mc_cfg("faithful", invs=INV_ALWAYS, **b),
                                    workers=3, coverage=(name == mains[0][0]), timeout=2400)))
        jobs.append(("MC_Text(fixed)", dict(module="Text", workers=3, timeout=2400, cfg_text=mc_cfg(
            "fixed", invs=INV_ALWAYS + ["TerminatorWritten"], widths=[1, 2, 4], maxl=4, maxs=2,
            cpset=[65, 233, 55296, 56320, 65536]))))
        jobs.append(("dump(Text,faithful,L<=%d,S<=2)" % gb["maxl"], dict(
            module="Text", workers=2, cfg_text=mc_cfg("faithful", invs=[], **gb), dump=dumpf)))
        jobs.append(("dump(Text,fixed,L<=%d,S<=2)" % gb["maxl"], dict(
            module="Text", workers=2, cfg_text=mc_cfg("fixed", invs=[], **gb), dump=dumpx)))
    jobs.append(("expect:terminator", dict(module="Text", workers=1, cfg_text=mc_cfg(
        "faithful", invs=["TerminatorWritten"], **small))))
    jobs.append(("expect:lonepair", dict(module="Text", workers=1, cfg_text=mc_cfg(
        "faithful", invs=["RoundTripAll"], **small))))
    for v in ("nocount16", "alwaysterm", "lastpair"):
        jobs.append(("sanity:" + v, dict(module="Text", workers=2, cfg_text=mc_cfg(
            v, invs=INV_ALWAYS, widths=[1, 2, 4], maxl=3, maxs=2, cpset=[65, 55296, 56320, 65536]))))
    res = tlc_many(jobs, par=4)
    for name, _ in jobs:
        r = res[name]
        design = name.startswith("MC_Text")
        ctx.add_tlc(name, r, require_ok=design or name.startswith("dump"), count_states=design)
    acts = action_counts(res[mains[0][0]].out)
    if len(acts) < 4 or any(n == 0 for _a, n in acts):
        raise core.MachineryError("an action of Text.tla was never taken (vacuous model run): %r" % acts)
    # the two expected design-level findings must be exactly the recorded classes
    r = res["expect:terminator"]
    st = counterexample_states(r.out)
    if set(r.invariant_violated) != {"TerminatorWritten"} or not st or st[-1]["W"] not in (2, 4):
        raise core.MachineryError("faithful model: expected TerminatorWritten to fail for a wide type only\n" + r.out[-1500:])
    ctx.cov["design_finding_terminator"] = {"W": st[-1]["W"], "old": list(st[-1]["old"]), "op": st[-1]["op"],
                                            "mem": list(st[-1]["mem"])}
    r = res["expect:lonepair"]
    st = counterexample_states(r.out)
    s = list(st[-1]["op"]["s"]) if st else []
    lone = any(0xD800 <= a <= 0xDBFF and 0xDC00 <= b <= 0xDFFF for a, b in zip(s, s[1:]))
    if set(r.invariant_violated) != {"RoundTripAll"} or not st or st[-1]["W"] != 2 or not lone:
        raise core.MachineryError("faithful model: expected RoundTripAll to fail only for W=2 with a lone pair\n" + r.out[-1500:])
    ctx.cov["design_finding_lonepair"] = {"W": 2, "s": s, "mem": list(st[-1]["mem"])}
    for v in ("nocount16", "alwaysterm", "lastpair"):
        r = res["sanity:" + v]
        if r.ok or not r.invariant_violated:
            raise core.MachineryError("broken variant %s of the model was not rejected by TLC" % v)
        ctx.cov.setdefault("sanity_rejected_by", {})[v] = r.invariant_violated[0]


# ------------------------------------------------------------------ records
def types_of(lab, W):
    return [T for T in mt.TYPES if lab.W(T) == W]


ABOUT = [None]        # set by produce(): called with a description before every execution


def about(*a):
    if ABOUT[0]:
        ABOUT[0](repr(a))


def rec_assign(lab, T, old, s, how):
    about("assign", T, old, s, how)
    new, exc = lab.assign(T, old, s, how)
    return {"k": "assign", "W": lab.W(T), "old": list(old), "s": list(s), "new": new, "exc": exc,
            "T": T, "how": how}


def rec_new(lab, T, decl, s, how):
    about("new", T, decl, s, how)
    mem, st, exc = lab.new(T, decl, s, how)
    return {"k": "new", "W": lab.W(T), "decl": decl, "s": list(s), "mem": mem, "str": st, "exc": exc,
            "T": T, "how": how}


VIEW = {True: "array", False: "pointer", "field": "field"}
UNVIEW = {"array": True, "pointer": False, "field": "field"}


def rec_string(lab, T, mem, isarr, maxlen):
    about("string", T, mem, isarr, maxlen)
    res, exc = lab.string(T, mem, isarr, maxlen)
    return {"k": "string", "W": lab.W(T), "mem": list(mem), "isarr": bool(isarr), "maxlen": maxlen,
            "res": res or [], "exc": exc, "T": T, "how": VIEW[isarr]}


def rec_unpack(lab, T, mem, isarr, n):
    about("unpack", T, mem, isarr, n)
    res, exc = lab.unpack(T, mem, isarr, n)
    return {"k": "unpack", "W": lab.W(T), "mem": list(mem), "n": n, "res": res or [], "exc": exc,
            "T": T, "how": VIEW[isarr]}


def execute(lab, d):
    """(re-)execute the operation described by a record on the real code"""
    k = d["k"]
    if k == "assign":
        return rec_assign(lab, d["T"], d["old"], d["s"], d["how"])
    if k == "new":
        return rec_new(lab, d["T"], d["decl"], d["s"], d["how"])
    if k == "string":
        return rec_string(lab, d["T"], d["mem"], UNVIEW[d["how"]], d["maxlen"])
    return rec_unpack(lab, d["T"], d["mem"], UNVIEW[d["how"]], d["n"])


def detect_variant(lab):
    new, exc = lab.assign("char32_t", [7, 7, 7], [65], "ptr")
    return "fixed" if new == [65, 0, 7] else "faithful"


# ------------------------------------------------------------------ spec -> code
def replay_graph(ctx, lab, variant, recs):
    g = tlaval.load_dot(os.path.join(ctx.tmp, "text_graph_%s.dot" % variant))
    rng = ctx.rng
    div = []
    nedges = 0
    for sid in g.init:                                     # ffi.new
        st = g.states[sid]
        W, s, decl = st["W"], list(st["op"]["s"]), st["op"]["decl"]
        for T in types_of(lab, W):
            hows = ["array"] + (["structlist", "structdict"] if decl >= 0 else [])
            for how in hows:
                rec = rec_new(lab, T, decl, s, how)
                recs.append(rec)
                ctx.case(("new", T, decl, tuple(s), how))
                if rec["mem"] != list(st["mem"]):
                    div.append("new %s[%s] %r via %s: units %r, model %r" % (T, decl, s, how, rec["mem"], list(st["mem"])))
        nedges += 1
    for sid, st in g.states.items():
        if st["op"]["k"] != "idle":
            continue
        W, mem = st["W"], list(st["mem"])
        Ts = types_of(lab, W)
        for _act, _args, dst in g.succ(sid):
            want = g.states[dst]                # the operation is recorded in the successor's `op`
            if want["op"]["k"] == "set":         # item assignment: C16's subject, compared with the model only
                i, c = want["op"]["decl"] - 1, want["op"]["s"][0]
                T = rng.choice(Ts)
                about("setitem", T, mem, i, c)
                got = lab.setitem(T, mem, i, c)
                nedges += 1
                if got != list(want["mem"]):
                    div.append("%s %r [%d] = unit %d: %r, model %r" % (T, mem, i, c, got, list(want["mem"])))
                continue
            if want["op"]["k"] not in ("assign", "toolong"):
                continue
            nedges += 1
            s = list(want["op"]["s"])
            T = rng.choice(Ts)
            for how in (rng.sample(mt.ASSIGN_HOWS, 2)):
                rec = rec_assign(lab, T, mem, s, how)
                recs.append(rec)
                ctx.case(("assign", T, tuple(mem), tuple(s), how))
                wantexc = "" if want["op"]["k"] == "assign" else "IndexError"
                if rec["new"] != list(want["mem"]) or rec["exc"] != wantexc:
                    div.append("assign %s %r <- %r via %s: units %r exc %r, model %r %r" % (
                        T, mem, s, how, rec["new"], rec["exc"], list(want["mem"]), wantexc))
        T = rng.choice(Ts)
        L = len(mem)
        for isarr in (True, False):
            maxlens = list(range(-1, L + 1))
            ns = list(range(0, L + 1))
            if ctx.quick and not isarr:          # quick tier: the pointer view reads a sample only
                maxlens, ns = [-1, rng.randint(0, L)], [rng.randint(0, L)]
            for maxlen in maxlens:
                if not isarr and maxlen < 0 and 0 not in mem:
                    continue
                recs.append(rec_string(lab, T, mem, isarr, maxlen))
                ctx.case(("string", T, tuple(mem), isarr, maxlen))
            for n in ns:
                recs.append(rec_unpack(lab, T, mem, isarr, n))
                ctx.case(("unpack", T, tuple(mem), isarr, n))
        units = lab.items(T, mem)
        if units != mem:
            div.append("list(p) of %s %r gives units %r" % (T, mem, units))
    ctx.cov["graph_states"] = len(g.states)
    ctx.cov["graph_transitions_replayed"] = nedges
    return div


# ------------------------------------------------------------------ code -> spec
def rand_cp(rng, W):
    if W == 1:
        return rng.choice([rng.randint(1, 127), rng.randint(128, 255), rng.randint(1, 255), 255, 1])
    k = rng.randrange(10)
    if k < 3:
        return rng.randint(1, 127)
    if k == 3:
        return rng.randint(128, 0x7FF)
    if k == 4:
        return rng.choice([0xFFFF, 0xD7FF, 0xE000, 0xFFFE, rng.randint(0x800, 0xFFFF)])
    if k == 5:
        return rng.randint(0xD800, 0xDBFF)
    if k == 6:
        return rng.randint(0xDC00, 0xDFFF)
    if k == 7:
        return rng.choice([0x10000, 0x10FFFF, 0x1F600])
    return rng.randint(0x10000, 0x10FFFF) if k == 8 else rng.randint(1, 0xFFFF)


def rand_str(rng, W, n, zero_ok=False):
    s = []
    while len(s) < n:
        r = rng.random()
        if W != 1 and r < 0.06 and len(s) + 2 <= n:
            s += [rng.randint(0xD800, 0xDBFF), rng.randint(0xDC00, 0xDFFF)]      # lone pair
        elif zero_ok and r < 0.10:
            s.append(0)
        else:
            s.append(rand_cp(rng, W))
    return s


def rand_units(rng, W, L):
    pz = rng.choice([0.0, 0.1, 0.3])
    out = []
    for _ in range(L):
        if rng.random() < pz:
            out.append(0)
        elif W == 1:
            out.append(rng.randint(1, 255))
        elif W == 2:
            out.append(rng.choice([rng.randint(1, 0xFFFF), rng.randint(0xD800, 0xDBFF), rng.randint(0xDC00, 0xDFFF), 0x41]))
        else:
            out.append(rand_cp(rng, 4))
    return out


def nunits(W, s):
    return len(s) + (sum(1 for c in s if c > 0xFFFF) if W == 2 else 0)


def rand_len(rng):
    return rng.choice([1, 2, 3, 4, 5, 8, rng.randint(1, 16), rng.randint(1, 64), 64])


def driver(ctx, lab, recs, n):
    rng = ctx.rng
    Ts = list(mt.TYPES)
    while len(recs) < n:
        T = rng.choice(Ts)
        W = lab.W(T)
        k = rng.random()
        if k < 0.45:
            L = rand_len(rng)
            old = rand_units(rng, W, L)
            m = rng.random()
            want = L if m < 0.15 else L + rng.randint(1, 3) if m < 0.22 else rng.randint(0, max(0, L - 1))
            s = rand_str(rng, W, want, zero_ok=True)
            while W == 2 and m >= 0.22 and nunits(W, s) > L:       # keep the intended "fits" classes
                s.pop()
            rec = rec_assign(lab, T, old, s, rng.choice(mt.ASSIGN_HOWS))
            ctx.case(("assign", T, L, nunits(W, s)))
        elif k < 0.65:
            s = rand_str(rng, W, rng.choice([0, 1, 2, 3, rng.randint(0, 20), rng.randint(0, 63)]))
            n0 = nunits(W, s)
            decl = -1 if rng.random() < 0.5 else n0 + rng.choice([0, 0, 1, 2, rng.randint(0, 10)])
            how = "array" if decl <= 0 else rng.choice(mt.NEW_HOWS)
            rec = rec_new(lab, T, decl, s, how)
            ctx.case(("new", T, decl, n0))
        elif k < 0.85:
            L = rand_len(rng)
            mem = rand_units(rng, W, L)
            isarr = rng.choice([True, True, False, False, "field"])
            maxlen = rng.choice([-1, rng.randint(0, L), L, rng.randint(0, L + 5)])
            if (maxlen > L or (maxlen < 0 and isarr is False)) and 0 not in mem:
                mem[rng.randrange(L)] = 0                            # reading stays inside the array
            rec = rec_string(lab, T, mem, isarr, maxlen)
            ctx.case(("string", T, L, isarr, maxlen))
        else:
            L = rand_len(rng)
            mem = rand_units(rng, W, L)
            nn = rng.randint(0, L)
            rec = rec_unpack(lab, T, mem, rng.choice([True, False, "field"]), nn)
            ctx.case(("unpack", T, L, nn))
        recs.append(rec)


def surrogate_cases(ctx, lab, recs):
    """The input class where the two loops of a UTF-16 decoder can disagree, generated systematically: lone high +
    high, lone high + pair, pair + lone high at the end, lone low + low, lone low + high, each alone and with another
    genuine pair before / after / both, read through string(), string(maxlen), unpack and as a struct field, and
    stored through ffi.new / assignment (as the corresponding code point strings)."""
    rng = ctx.rng
    H, H2, L_, L2 = 0xD800, 0xDBFF, 0xDC00, 0xDFFF
    P, Q = [0xD83D, 0xDE00], [0xDBFF, 0xDFFF]
    cores = [[H, H2], [H] + P, P + [H], [L_, L2], [L_, H], [H, H2] + P, [H, H2, L2], [H2, H] + Q, P + [H, H2], [H]]
    seqs = []
    for c in cores:
        seqs += [c, Q + c, c + Q, [0x41] + c + [0x42] + Q, Q + c + P]
    for T in ("char16_t", "wchar_t", "char32_t"):
        W = lab.W(T)
        for u in seqs:
            if W == 4 and rng.random() < 0.8:
                continue                                  # 4-byte units: nothing to join; a sample is enough
            mems = [u, u + [0, 0x43]]
            for mem in mems:
                L = len(mem)
                views = [True, "field"] + ([False] if 0 in mem else [])
                for v in views:
                    recs.append(rec_string(lab, T, mem, v, -1))
                    ctx.case(("sur-string", T, tuple(mem), v))
                for maxlen in range(0, L + 1):
                    recs.append(rec_string(lab, T, mem, rng.choice([True, False, "field"]), maxlen))
                for nn in range(0, L + 1):
                    recs.append(rec_unpack(lab, T, mem, rng.choice([True, False, "field"]), nn))
                ctx.case(("sur-reads", T, tuple(mem)), n=2 * L + 2)
            # the same sequence as a Python string: units -> code points (pairs joined by the specification's
            # own rule would hide the class, so the units are taken as code points, plus the joined form)
            for s in (list(u), joined(u)):
                n0 = nunits(W, s)
                recs.append(rec_new(lab, T, -1, s, "array"))
                recs.append(rec_new(lab, T, n0 + 2, s, rng.choice(mt.NEW_HOWS)))
                recs.append(rec_assign(lab, T, [0x61] * (n0 + 3), s, rng.choice(mt.ASSIGN_HOWS)))
                ctx.case(("sur-store", T, tuple(s)), n=3)


def joined(u):
    """the str whose UTF-16 encoding is u when u's genuine pairs are written as astral characters"""
    out, i = [], 0
    while i < len(u):
        if 0xD800 <= u[i] <= 0xDBFF and i + 1 < len(u) and 0xDC00 <= u[i + 1] <= 0xDFFF:
            out.append(0x10000 + ((u[i] - 0xD800) << 10) + (u[i + 1] - 0xDC00))
            i += 2
        else:
            out.append(u[i])
            i += 1
    return out


def strip(rec):
    return {k: v for k, v in rec.items() if k not in ("T", "how")}


def judge(ctx, recs, report=True):
    verdicts, diverge, totals = batch_verdicts(ctx, "Trace_Text", [strip(r) for r in recs],
                                               chunk=max(3000, -(-len(recs) // 3)) if ctx.quick else 5000)
    nbad = 0
    for i in sorted(verdicts):
        rec = recs[i]
        for clause in verdicts[i]:
            nbad += 1
            if report:
                ctx.violation("%s:%s:%s" % (clause, rec["T"], rec["how"]), CLAUSE.get(clause, clause), rec)
    ctx.validated(len(recs))
    if report and ctx.violations:
        classes = {}
        for key, _w, _p in ctx.violations:
            c = ":".join(key.split(":")[:-1])
            classes[c] = classes.get(c, 0) + 1
        print("VIOLATION-CLASSES C15: %s" % ", ".join("%s x%d" % kv for kv in sorted(classes.items())))
    return nbad, diverge, totals


def produce(cc, args):
    """executed in a sub-process (harness.mem2_child): everything that touches the real cffi"""
    ABOUT[0] = cc.about
    lab = mt.TextLab()
    variant = detect_variant(lab)
    recs = []
    div = replay_graph(cc, lab, variant, recs)
    ngraph = len(recs)
    surrogate_cases(cc, lab, recs)
    cc.cov["surrogate_class_records"] = len(recs) - ngraph
    driver(cc, lab, recs, len(recs) + (2500 if cc.quick else 40000))
    return {"recs": recs, "div": div, "variant": variant, "ngraph": ngraph}


def run(ctx):
    design_level(ctx)
    out = run_child(ctx, "c15", {})
    if out is None:
        return
    recs, div, variant, ngraph = out["recs"], out["div"], out["variant"], out["ngraph"]
    ctx.cov["implementation_matches_model_variant"] = variant
    nbad, diverge, totals = judge(ctx, recs)
    for i in sorted(diverge)[:10]:
        div.append("record %d (%s) is predicted by neither model variant: %r" % (i, diverge[i], recs[i]))
    nf, nx = sum(t[1] for t in totals), sum(t[2] for t in totals)
    if (variant == "faithful" and nx) or (variant == "fixed" and nf):
        div.append("records matching only the faithful model: %d, only the fixed model: %d" % (nf, nx))
    ctx.cov["model_divergences"] = div[:10]
    ctx.cov["model_divergence_count"] = len(div) + max(0, len(diverge) - 10)
    if div:
        print("NOTE C15: %d differences from the implementation model (first: %s); verdicts come from the ideal"
              % (len(div), div[0]))
    good = [r for r in recs[ngraph:] if r["k"] == "assign"][:2] + [r for r in recs[ngraph:] if r["k"] == "new"][:1]
    for r in good + [r for r in recs[ngraph:] if r["k"] == "string"][:1]:
        ctx.sample(r)
    ctx.cov["records"] = {"from_TLC_graph": ngraph, "from_driver": len(recs) - ngraph,
                          "only_faithful": nf, "only_fixed": nx}
    ctx.cov["rule"] = ("distinct = distinct (operation, type, contents/lengths) executed on real cdata; all are "
                       "non-trivial (a store, a construction or a read of a character array)")
    ctx.cov["exhaustive"] = True     # every init state and every Assign / SetUnit edge of the dumped graph was executed
                                     # (thorough: also every read; quick samples the reads through the pointer view)
    ctx.assumptions += ["raw units are written/read through ffi.buffer (byte copy), independent of the string paths",
                        "32-bit units above 0x10FFFF and ffi.string with maxlen beyond an unterminated array are "
                        "outside the statement and not generated",
                        "storing a string of exactly the array length (no room for a terminator) and longer "
                        "strings are compared with the implementation model only (the statement is silent)"]


def replay(ctx, obj):
    lab = mt.TextLab()
    rec = execute(lab, obj["replay"])
    ctx.cov["states"] = ctx.cov["transitions"] = 1
    nbad, _d, _t = judge(ctx, [rec])
    print("re-executed %s on %s: %s" % (rec["k"], rec["T"], "rejected by the ideal" if nbad else "accepted"))


def selftest(ctx):
    lab = mt.TextLab()
    a = rec_assign(lab, "char", [9, 9, 9, 9, 9], [65, 66], "ptr")
    s = rec_string(lab, "char16_t", [65, 0xD83D, 0xDE00, 0, 66], True, -1)
    u = rec_unpack(lab, "char32_t", [65, 0x1F600, 0, 66], False, 3)
    ok1 = judge(ctx, [a, s, u], report=False)[0] == 0
    a2 = dict(a, new=[65, 66, 9, 9, 9])            # terminator lost
    a3 = dict(a, new=[65, 66, 0, 9, 8])            # tail changed
    s2 = dict(s, res=[65, 0xD83D, 0xDE00])         # pair not joined
    u2 = dict(u, res=[65, 0x1F600])                # one unit short
    ok2 = judge(ctx, [a2, a3, s2, u2], report=False)[0] >= 4
    return ok1 and ok2


META = {
    "category": "model_checking",
    "text": "TLC checks every clause of the statement (units written, terminator, tail unchanged, T[] length, "
            "round trip, stop at first zero within maxlen, unpack of exactly n units, UTF-16 encode/decode lemmas) on "
            "every reachable (array contents, operation) pair of an operator-per-C-function model of the wide/narrow "
            "string converters, for the pinned code, the proposed repair and three broken variants; the complete "
            "state graph of a small bound is executed edge by edge on real cdata of all six character types through "
            "four assignment forms, a seeded driver adds real-size cases, and TLC judges every recorded operation "
            "against the ideal clauses.",
    "note": "Memory is prepared and observed as raw units through ffi.buffer. Not covered: 32-bit units above "
            "0x10FFFF, reads past an unterminated array with maxlen > length, wchar_t of 2 bytes (Windows), "
            "wchar_helper.h (Python 2 only). Strings that exactly fill or exceed the array are compared with the "
            "model only, the statement being silent.",
    "technique": "TLA+ model vs ideal clauses (TLC) + edge-by-edge replay of the TLC graph + TLC validation of recorded operations",
    "design_ref": "DESIGN.md §3 C15",
}
