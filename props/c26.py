"""C26 — ffi.init_once runs the initializer once under any interleaving.

Design level : specs/InitOnce.tla (implementation model, one action per shared-memory
               operation) refines specs/InitOnceIdeal.tla (the property as a machine); TLC,
               3 threads, 2 tags, all interleavings, plus liveness under weak fairness, plus
               three deliberately broken variants that must be rejected (non-vacuity).
Binding      : (a) Python FFI.init_once: every behaviour TLC enumerates for the 2-thread
               graphs (and sampled 3-thread behaviours) is replayed step by step on real
               threads under a cooperative scheduler that owns the cache dict and the lock;
               (b) the C ffi_init_once (backend FFI object) is driven through the points
               where it can really yield (tag __hash__/__eq__, the initializer body) with
               schedules taken from TLC behaviours, and with free-running stress;
               every run yields an event trace (call/fstart/fok/fexc/ret/exc) and TLC
               validates all traces against the ideal (Trace_InitOnce.tla).
"""
import json, os, threading, time
from harness import core, tlaval
from harness.sched import Sched, SchedLock, Deadlock

LEVEL = "model_checking"

CFG = """SPECIFICATION Spec
CONSTANTS Threads = {%s}
  Tags = {%s}
  MaxCalls = %d
  Variant = "%s"
INVARIANT MutexF
INVARIANT LockSafe
PROPERTY RefinesIdeal
CHECK_DEADLOCK FALSE
"""


def cfg(threads, tags, maxcalls, variant="faithful"):
    return CFG % (",".join(map(str, threads)), ",".join('"%s"' % g for g in tags), maxcalls, variant)


EXPECT = {"Begin": "start", "P1": "get", "P2": "setdefault", "P4": "acquire", "P5": "get",
          "P6": "fstart", "P6bOk": "fend", "P6bExc": "fend", "P7": "set", "P8": "release"}


class InstrDict(dict):
    def __init__(self, s):
        self.s = s

    def __getitem__(self, k):
        self.s.yield_point(("get", k))
        return dict.__getitem__(self, k)

    def get(self, k, d=None):
        self.s.yield_point(("get", k))
        return dict.get(self, k, d)

    def __contains__(self, k):
        self.s.yield_point(("get", k))
        return dict.__contains__(self, k)

    def setdefault(self, k, d=None):
        self.s.yield_point(("setdefault", k))
        return dict.setdefault(self, k, d)

    def __setitem__(self, k, v):
        self.s.yield_point(("set", k))
        dict.__setitem__(self, k, v)

    def __delitem__(self, k):
        self.s.yield_point(("del", k))
        dict.__delitem__(self, k)

    def pop(self, k, *a):
        self.s.yield_point(("del", k))
        return dict.pop(self, k, *a)


class Boom(Exception):
    pass


class BoomBase(BaseException):
    """An initializer may leave with any exception class, also one that is not an Exception
    (SystemExit, KeyboardInterrupt, GeneratorExit ...): the property's clauses are the same."""


BOOMS = (Boom, BoomBase)


def boom(tid, n):
    return (BoomBase if (tid + n) % 2 else Boom)()


class Run:
    """One execution of a set of init_once calls on real threads."""
    def __init__(self, variant):
        self.variant = variant        # 'py' (instrumented), 'c' (tag/f yields)
        self.events = []
        self.s = Sched()
        self.results = {}             # tid -> list of ('ret', v) / ('exc',)
        self.locks = {}
        self.stop = False
        self.fplan = {}               # (tid, ncall) -> 'ok'/'exc' ; default from rng

    def ev(self, **kw):
        e = {"ev": "", "t": 0, "g": "", "v": 0}
        e.update(kw)
        self.events.append(e)


class Tag:
    """Tag object whose __hash__/__eq__ are yield points (C variant)."""
    def __init__(self, s, name):
        self.s, self.name = s, name

    def __hash__(self):
        self.s.yield_point(("hash", self.name))
        return hash(self.name)

    def __eq__(self, other):
        self.s.yield_point(("eq", self.name))
        return isinstance(other, Tag) and other.name == self.name


def make_worker(run, ffi, tid, calls, tagobj):
    """calls: callable returning the next (tag, fbehaviour) or None."""
    s = run.s

    def body():
        n = 0
        while True:
            nxt = calls(tid, n)
            if nxt is None:
                return
            n += 1
            g, getbeh = nxt
            val = tid * 10 + n

            def f(val=val, n=n):
                s.yield_point(("fstart", g))
                run.ev(ev="fstart", t=tid)
                s.yield_point(("fend", g))
                if getbeh() == "ok":
                    run.ev(ev="fok", t=tid, v=val)
                    return val
                run.ev(ev="fexc", t=tid)
                raise boom(tid, n)
            run.ev(ev="call", t=tid, g=g)
            try:
                r = ffi.init_once(f, tagobj(g))
            except BOOMS:
                run.ev(ev="exc", t=tid)
                run.results.setdefault(tid, []).append(("exc",))
            else:
                run.ev(ev="ret", t=tid, v=r if isinstance(r, int) else -1)
                run.results.setdefault(tid, []).append(("ret", r))
            s.yield_point("start")       # next Begin
    return body


def py_ffi(run):
    import cffi, cffi.api
    ffi = cffi.FFI()
    ffi._init_once_cache = InstrDict(run.s)
    counter = {}

    def alloc():
        tid = run.s.tid() or 0
        counter[tid] = counter.get(tid, 0)
        lk = SchedLock(run.s, (tid, run.ncall.get(tid, 1)))
        run.locks[lk.name] = lk
        return lk
    return ffi, alloc


def proj_py(run, ffi, tags):
    cache = {}
    for g in tags:
        if not dict.__contains__(ffi._init_once_cache, g):
            cache[g] = ("none",)
        else:
            x = dict.__getitem__(ffi._init_once_cache, g)
            cache[g] = ("done", x[1]) if x[0] else ("lock", x[1].name)
    return cache


def replay_py_exact(ctx, path, threads, tags, record):
    """Replay one TLC behaviour of InitOnce.tla on the Python FFI.init_once.
    Returns (events, divergence or None)."""
    import cffi.api
    run = Run("py")
    run.ncall = {}
    s = run.s
    ffi, alloc = py_ffi(run)
    # plan: per thread the sequence of (tag, behaviour) from the path
    tagseq = {t: [] for t in threads}
    behs = {t: [] for t in threads}
    for act, args, st in path:
        t = args[0]
        if act == "Begin":
            tagseq[t].append(st["tag"][t - 1])
        elif act == "P6bOk":
            behs[t].append("ok")
        elif act == "P6bExc":
            behs[t].append("exc")
    behidx = {t: 0 for t in threads}

    def calls(tid, n):
        if run.stop or n >= len(tagseq[tid]):
            return None
        run.ncall[tid] = n + 1

        def getbeh():
            i = behidx[tid]
            behidx[tid] += 1
            return behs[tid][i] if i < len(behs[tid]) else "ok"
        return tagseq[tid][n], getbeh
    old = cffi.api.allocate_lock
    cffi.api.allocate_lock = alloc
    divergence = None
    try:
        for t in threads:
            s.spawn(t, make_worker(run, ffi, t, calls, lambda g: g))
        s.step_wait()
        for i, (act, args, st) in enumerate(path):
            t = args[0]
            if act == "P3":
                continue
            if s.state.get(t) != "parked":
                divergence = "step %d %s(%d): thread not parked (%s, %s)" % (i, act, t, s.state.get(t), s.label.get(t))
                break
            lab = s.label[t]
            labk = lab if isinstance(lab, str) else lab[0]
            if labk != EXPECT[act]:
                divergence = "step %d %s(%d): implementation is at %r" % (i, act, t, lab)
                break
            with s.cv:
                s.state[t] = "running"
                s.granted.add(t)
                s.cv.notify_all()
            s.step_wait()
            # projected state comparison
            want = {g: tuple(st["cache"][g]) for g in tags}
            want = {g: (v[0], tuple(v[1])) if v[0] == "lock" else v for g, v in want.items()}
            got = proj_py(run, ffi, tags)
            if want != got:
                divergence = "step %d %s(%d): cache %r, model %r" % (i, act, t, got, want)
                break
            for lid, holder in st["holder"].items():
                lk = run.locks.get(tuple(lid))
                if lk is not None and (lk.owner or 0) != holder and want.get(lk_tag(st, lid)) is not None:
                    divergence = "step %d %s(%d): lock %r owner %r, model %r" % (i, act, t, lid, lk.owner, holder)
                    break
            if divergence:
                break
            for u in threads:
                if st["pc"][u - 1] == "p3":
                    continue          # the model's test step has no operation of its own
                wantout = [tuple(o) for o in st["outcome"][u - 1]]
                if wantout != run.results.get(u, []):
                    divergence = "step %d %s(%d): outcomes of %d %r, model %r" % (
                        i, act, t, u, run.results.get(u, []), wantout)
                    break
            if divergence:
                break
        # drain: finish in free mode whatever remains
        run.stop = True
        rng = ctx.rng
        s.run(lambda parked, labels: rng.choice(parked))
    except Deadlock as d:
        run.ev(ev="deadlock")
    finally:
        cffi.api.allocate_lock = old
    return run.events, divergence


def lk_tag(st, lid):
    for g, v in st["cache"].items():
        if v[0] == "lock" and tuple(v[1]) == tuple(lid):
            return g
    return None


def run_free(ctx, variant, nthreads, tags, ncalls, order, pexc, instrument=True):
    """Run init_once calls under the scheduler with a thread-choice sequence `order`
    (exhausted -> seeded random).  variant: 'py' | 'c'."""
    import cffi.api, _cffi_backend
    run = Run(variant)
    run.ncall = {}
    s = run.s
    rng = ctx.rng
    if variant == "py":
        ffi, alloc = py_ffi(run)
        old = cffi.api.allocate_lock
        cffi.api.allocate_lock = alloc
        tagobj = lambda g: g
    else:
        ffi = _cffi_backend.FFI()
        tagobj = (lambda g: Tag(s, g)) if instrument else (lambda g: g)
    plan = {t: [(rng.choice(tags), "exc" if rng.random() < pexc else "ok") for _ in range(ncalls)]
            for t in range(1, nthreads + 1)}

    def calls(tid, n):
        if n >= ncalls:
            return None
        run.ncall[tid] = n + 1
        g, b = plan[tid][n]
        return g, (lambda: b)
    order = list(order)

    def choose(parked, labels):
        while order:
            t = order.pop(0)
            if t in parked:
                return t
        return rng.choice(parked)
    try:
        for t in range(1, nthreads + 1):
            s.spawn(t, make_worker(run, ffi, t, calls, tagobj))
        s.run(choose)
    except Deadlock:
        run.ev(ev="deadlock")
    finally:
        if variant == "py":
            cffi.api.allocate_lock = old
    return run.events


def run_stress(ctx, variant, nthreads, tags, ncalls, pexc):
    """No scheduler at all: real threads, real locks, tiny sleeps inside f."""
    import cffi, _cffi_backend
    ffi = cffi.FFI() if variant == "py" else _cffi_backend.FFI()
    events = []
    rng = ctx.rng
    plan = {t: [(rng.choice(tags), rng.random() < pexc, rng.random() * 0.0005) for _ in range(ncalls)]
            for t in range(1, nthreads + 1)}
    barrier = threading.Barrier(nthreads)

    def ev(**kw):
        e = {"ev": "", "t": 0, "g": "", "v": 0}
        e.update(kw)
        events.append(e)

    def body(tid):
        barrier.wait()
        for n, (g, exc, slp) in enumerate(plan[tid]):
            val = tid * 1000 + n + 1

            def f():
                ev(ev="fstart", t=tid)
                time.sleep(slp)
                if exc:
                    ev(ev="fexc", t=tid)
                    raise boom(tid, n)
                ev(ev="fok", t=tid, v=val)
                return val
            ev(ev="call", t=tid, g=g)
            try:
                r = ffi.init_once(f, g)
            except BOOMS:
                ev(ev="exc", t=tid)
            else:
                ev(ev="ret", t=tid, v=r)
    ths = [threading.Thread(target=body, args=(t,), daemon=True) for t in range(1, nthreads + 1)]
    for th in ths:
        th.start()
    for th in ths:
        th.join(120)
        if th.is_alive():
            ev(ev="deadlock")
    return events


def validate(ctx, traces, meta):
    """TLC validates all traces against InitOnceIdeal; returns list of (index, verdict, pos)."""
    path = os.path.join(ctx.tmp, "traces_%d.json" % len(ctx.cov["tlc_runs"]))
    core.write_json(path, traces)
    r = core.tlc("Trace_InitOnce", workers=1, env={"TRACE_FILE": path})
    ctx.add_tlc("Trace_InitOnce", r, count_states=False)
    verdicts = {}
    for tup in core.tla_tuples(r.out, "VERDICT"):
        verdicts[int(tup[0])] = (core.unq(tup[1]), int(tup[2]))
    if len(verdicts) != len(traces):
        raise core.MachineryError("trace validation incomplete: %d verdicts for %d traces\n%s" % (
            len(verdicts), len(traces), r.out[-2000:]))
    bad = []
    for k in range(1, len(traces) + 1):
        v, pos = verdicts[k]
        ctx.validated()
        if v != "ok":
            bad.append((k - 1, v, pos))
    return bad


CLAUSE = {"fstart": "an initializer started while another was running for the tag or after a normal completion",
          "ret": "a call returned a value that is not the tag's completion result",
          "exc": "a call raised although its own initializer did not raise",
          "unfinished": "a call never returned (blocked forever)",
          "deadlock": "no thread could run and not all calls had returned",
          "call": "harness: nested call", "fok": "harness", "fexc": "harness"}


def run(ctx):
    quick = ctx.quick
    # ---------------------------------------------------------------- design level
    r = core.tlc("InitOnce", cfg_text=cfg([1, 2, 3], ["A", "B"], 1), coverage=True)
    ctx.add_tlc("MC_InitOnce(3thr,2tags)", r)
    r = core.tlc("InitOnce", "MC_InitOnce_live")
    ctx.add_tlc("MC_InitOnce_live(3thr,1tag,2calls,WF)", r)
    if not quick:
        r = core.tlc("InitOnce", cfg_text=cfg([1, 2, 3], ["A", "B"], 2), timeout=1500)
        ctx.add_tlc("MC_InitOnce(3thr,2tags,2calls)", r)
    for v in ("norecheck", "cacheexc", "earlyrelease"):
        r = core.tlc("InitOnce", cfg_text=cfg([1, 2, 3], ["A"], 1, v), workers=4)
        ctx.add_tlc("sanity:" + v, r, require_ok=False, count_states=False)
        if r.ok or "is violated" not in r.out:
            raise core.MachineryError("broken variant %s of the model was not rejected by TLC" % v)

    # ---------------------------------------------------------------- spec -> code (Python variant)
    traces, metas = [], []
    divergences = []
    confs = [([1, 2], ["A"], 1), ([1, 2], ["A", "B"], 1), ([1, 2], ["A"], 2), ([1, 2, 3], ["A"], 1)]
    for threads, tags, mc in confs:
        dump = os.path.join(ctx.tmp, "g_%d_%d_%d" % (len(threads), len(tags), mc))
        r = core.tlc("InitOnce", cfg_text=cfg(threads, tags, mc), dump=dump, workers=4)
        ctx.add_tlc("dump(%dthr,%dtags,%dcalls)" % (len(threads), len(tags), mc), r, count_states=False)
        g = tlaval.load_dot(dump + ".dot")
        n = (120 if quick else 2500)
        paths = tlaval.walks(g, ctx.rng, n)
        for p in paths:
            evs, div = replay_py_exact(ctx, p, threads, tags, True)
            traces.append(evs)
            metas.append({"kind": "py-exact", "conf": [len(threads), len(tags), mc],
                          "schedule": [[a, list(args)] for a, args, _ in p]})
            ctx.case(("py", tuple((a, args) for a, args, _ in p)))
            if div:
                divergences.append(div)
        ctx.sample({"kind": "TLC behaviour replayed on FFI.init_once",
                    "schedule": metas[-1]["schedule"], "events": traces[-1]}, limit=2)
    # schedules for the free-running variants: thread-choice sequences of 3-thread behaviours
    dump = os.path.join(ctx.tmp, "g3")
    r = core.tlc("InitOnce", cfg_text=cfg([1, 2, 3], ["A", "B"], 2), dump=dump, workers=8) if not quick else None
    g3 = tlaval.load_dot(dump + ".dot") if r else g
    orders = [[args[0] for a, args, _ in p] for p in tlaval.walks(g3, ctx.rng, 150 if quick else 3000)]
    for i, order in enumerate(orders):
        variant = "c" if i % 3 else "py"
        evs = run_free(ctx, variant, 3, ["A", "B"] if i % 2 else ["A"], 2, order, 0.35)
        traces.append(evs)
        metas.append({"kind": variant + "-steered", "order": order})
        ctx.case((variant, tuple(order)))
    ctx.sample({"kind": "ffi_init_once (C) steered through tag __hash__/__eq__ and f",
                "order": metas[-1]["order"], "events": traces[-1]}, limit=4)
    # stress
    for i in range(20 if quick else 300):
        variant = "c" if i % 2 else "py"
        evs = run_stress(ctx, variant, 2 + i % 7, ["A", "B", "C"][: 1 + i % 3], 3, 0.4)
        traces.append(evs)
        metas.append({"kind": variant + "-stress"})
        ctx.case((variant, "stress", i))
    for evs, m in zip(traces, metas):
        if any(e["ev"] == "deadlock" for e in evs):
            ctx.violation("deadlock:" + m["kind"], CLAUSE["deadlock"], {"meta": m, "events": evs})
    clean = [[e for e in evs if e["ev"] != "deadlock"] for evs in traces]
    bad = []
    for i in range(0, len(clean), 2000):
        bad += [(i + k, v, pos) for k, v, pos in validate(ctx, clean[i:i + 2000], metas)]
    for k, v, pos in bad:
        ctx.violation("%s:%s" % (metas[k]["kind"], v), CLAUSE.get(v, v),
                      {"meta": metas[k], "events": traces[k], "failing_event_index": pos})
    ctx.cov["model_divergences"] = divergences[:10]
    ctx.cov["model_divergence_count"] = len(divergences)
    if divergences:
        print("NOTE C26: %d replays left the implementation model (first: %s); verdicts come from the ideal"
              % (len(divergences), divergences[0]))
    ctx.cov["rule"] = ("distinct = distinct (variant, schedule) pairs executed on real threads; every one is "
                       "non-trivial: >=2 threads racing on >=1 tag")
    ctx.cov["exhaustive"] = False
    ctx.assumptions += ["CPython GIL semantics: dict operations on str keys are atomic",
                        "event order = order of list.append under the GIL; 'call' is logged before and "
                        "'ret'/'exc' after the real call, so the logged interval encloses the real one"]


def replay(ctx, obj):
    evs = [e for e in obj["replay"]["events"] if e["ev"] != "deadlock"]
    bad = validate(ctx, [evs], [obj["replay"]["meta"]])
    ctx.cov["states"] = 1
    ctx.cov["transitions"] = 1
    for k, v, pos in bad:
        ctx.violation(obj["key"], CLAUSE.get(v, v), obj["replay"])
    print("replayed recorded trace: %s" % ("rejected by the ideal" if bad else "accepted"))


def selftest(ctx):
    """Corrupt one recorded field and see the rejection."""
    evs = run_stress(ctx, "c", 3, ["A"], 2, 0.0)
    ok1 = not validate(ctx, [evs], [{}])
    for e in evs:
        if e["ev"] == "ret":
            e["v"] += 1
            break
    ok2 = bool(validate(ctx, [evs], [{}]))
    return ok1 and ok2

META = {
    "category": "model_checking",
    "text": "TLC explores every interleaving of 3 threads over 2 tags of an action-per-operation model of both "
            "init_once implementations and checks that it refines the property machine (safety) and that every "
            "call returns under weak fairness; TLC behaviours are replayed step by step on the real "
            "FFI.init_once under a scheduler that owns its dict and lock, the C ffi_init_once is steered "
            "through its real yield points and stressed, and TLC validates every recorded event trace against "
            "the property machine.",
    "note": "Trusted: TLC, CPython's GIL (dict ops on the cache are atomic), event order = append order under "
            "the GIL. The C variant's lock acquisition cannot be intercepted without a hook: schedules around it "
            "are steered through tag.__hash__/__eq__ and the initializer body only.",
    "technique": "TLA+ refinement (TLC) + schedule replay of TLC behaviours on real threads + TLC trace validation",
    "design_ref": "DESIGN.md §3 C26",
}
