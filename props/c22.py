"""C22 — errno is passed to and from C calls and is thread-local.

Design level : specs/Errno.tla (real errno vs cffi's saved copy per thread; restore/save
               around every way into C, save/restore around callbacks, b_get_errno /
               b_set_errno, transcribed from the C sources) refines specs/ErrnoIdeal.tla (one
               errno register per thread seen from both sides of the boundary); TLC, 3 threads,
               every interleaving; five deliberately broken variants must be rejected, one of
               them the single shared saved errno, which must violate NonInterference.
Binding      : (a) spec -> code: every edge of a complete 2-thread TLC state graph, and
               simulated TLC behaviours of 2-4 threads (one of them possibly not created by
               Python), are replayed in lock-step on real threads: one semaphore hand-off per
               model step, C code observing/assigning the real errno inside calls made through
               the API wrapper, a function pointer (libffi), in-line dlopen, the address fetch
               of an API-mode global variable, ffi.callback and extern "Python";
               (b) code -> spec: free-running threads execute random nested programs with
               32-bit errno values; (a) and (b) yield event traces which TLC validates against
               the ideal (Trace_Errno.tla).  Verdicts come from the ideal; a step whose
               observation differs from the implementation model's prediction is a NOTE.
Embedding    : the other way into an extern "Python" function - a C thread calls the dll-exported
               function of an EMBEDDED module, and the first such call (or a call arriving from
               another thread meanwhile) runs the interpreter start-up in between
               (_embedding.h:_cffi_start_and_call_python: save errno, start, restore, forward) -
               is an action of the ideal (EmbEnter: the thread's errno is untouched whatever
               start-up runs) and three actions of the model (EmbCall/EmbStart/EmbForward, variant
               emb_norestore must be rejected); harness/emb_errno.py builds a real embedded
               module from the tree under test plus a multi-threaded C program, runs random
               programs in fresh processes and the recorded traces go through the same TLC
               validation (kind "embed").
"""
import concurrent.futures, ctypes, json, os, subprocess, sys, threading, time
from harness import core, tlaval
from harness import thr_errno as T
from harness import emb_errno as E

LEVEL = "model_checking"
# short TLC runs: few GC threads and the C1 compiler only (halves the CPU time of a JVM start)
JLIGHT = {"JAVA_TOOL_OPTIONS": "-XX:ParallelGCThreads=2 -XX:TieredStopAtLevel=1"}
JHEAVY = {"JAVA_TOOL_OPTIONS": "-XX:ParallelGCThreads=4"}

ACTIONS = ("Set", "Get", "Clobber", "CallEnter", "CSet", "CallExit", "CbEnter", "CbExit")
EMB_ACTIONS = ("EmbCall", "EmbStart", "EmbForward")
VARIANTS = ("shared", "cb_nosave", "get_consumes", "glob_bare", "cb_norestore", "emb_norestore")
INT_MIN, INT_MAX = -2 ** 31, 2 ** 31 - 1

CLAUSE = {
    "Get": "ffi.errno returned a value that is not the thread's errno (last assigned by the thread "
           "itself through ffi.errno, by its C function, or inside its callback)",
    "CallEnter": "a C function saw an errno that is not the value last assigned to the thread's ffi.errno",
    "CbExit": "C code saw, when its callback had returned, an errno that is neither what it had set before "
              "the callback nor what the callback assigned to ffi.errno",
}


def sset(xs):
    return "{" + ",".join('"%s"' % x if isinstance(x, str) else str(x) for x in xs) + "}"


def cfg(threads, raw, vals, paths, kinds, maxlen, variant="faithful", props=("RefinesIdeal",),
        spec="Spec", extra="", emb=()):
    s = "SPECIFICATION %s\nCONSTANTS Threads = %s\n  Raw = %s\n  Vals = %s\n  Paths = %s\n  Kinds = %s\n" \
        "  MaxLen = %d\n  Variant = \"%s\"\n" % (spec, sset(threads), sset(raw), sset(vals), sset(paths),
                                                 sset(kinds), maxlen, variant)
    s += "  Emb = %s\n" % sset(emb) + extra
    if spec == "Spec":
        s += "INVARIANT TypeOK\n"
    for p in props:
        s += "PROPERTY %s\n" % p
    return s + "CHECK_DEADLOCK FALSE\n"


def ev(name, t, v=0, p=""):
    return {"ev": name, "t": t, "v": v, "p": p}


# ------------------------------------------------------------------------------ lock-step replay

def family_of(steps, t):
    paths = {s[2] for s in steps if s[1] == t and s[0] == "CallEnter"}
    kinds = {s[2] for s in steps if s[1] == t and s[0] == "CbEnter"}
    if "dl" not in paths:
        return "api"
    if paths <= {"dl"} and kinds <= {"cbk"}:
        return "dl"
    return "mixed"


def lockstep_replay(env, rng, steps, threads, raw, real0, valmap):
    """steps: [(action, thread, arg, predicted_observation)] in model values.  Executes them
    on real threads; returns (trace, divergences)."""
    fam = {t: family_of(steps, t) for t in threads}
    ls = T.LockStep(env, threads, fam, raw=raw, rnd=rng)
    events, div = [], []
    stk = {t: (["raw"] if t in raw else []) for t in threads}
    try:
        for t in sorted(raw):
            init = valmap[real0[t]]
            o = ls.step("SpawnRaw", t, init)
            if o != init:
                raise core.MachineryError("raw thread: errno assigned by its own C code reads back %r != %r" % (o, init))
            events.append(ev("CSet", t, init))
        for i, (act, t, arg, pred) in enumerate(steps):
            if act in ("Set", "Clobber", "CSet"):
                ls.step(act, t, valmap[arg])
                events.append(ev(act, t, valmap[arg]))
                continue
            if act == "Get":
                o = ls.step(act, t)
                events.append(ev(act, t, o))
            elif act == "CallEnter":
                o = ls.step(act, t, arg)
                events.append(ev(act, t, o, arg))
                stk[t].append(arg)
            elif act == "CbEnter":
                ls.step(act, t, arg)
                events.append(ev(act, t, 0, arg))
                stk[t].append(arg)
                continue
            elif act == "CbExit":
                o = ls.step(act, t, rng.randrange(-5, 1000))
                events.append(ev(act, t, o))
                stk[t].pop()
            elif act == "CallExit":
                ls.step(act, t, rng.randrange(-5, 1000))
                events.append(ev(act, t))
                stk[t].pop()
                continue
            else:
                raise core.MachineryError("unknown model action %r" % (act,))
            if pred is not None and o != valmap[pred]:
                div.append("step %d %s(%d%s): observed %d, implementation model predicts %d" % (
                    i, act, t, "," + arg if isinstance(arg, str) else "", o, valmap[pred]))
        # drain: unwind every thread; the observations made on the way are validated too
        for t in threads:
            while stk[t] and stk[t] != ["raw"]:
                if len(stk[t]) % 2 == 1:
                    ls.step("CallExit", t, 0)
                    events.append(ev("CallExit", t))
                else:
                    events.append(ev("CbExit", t, ls.step("CbExit", t, 0)))
                stk[t].pop()
            if t not in raw:
                events.append(ev("Get", t, ls.step("Get", t)))
    finally:
        ls.close(stk)
    return {"raw": sorted(raw), "evs": events}, div


def edge_cover(g, rng, seglen):
    """Behaviours (lists of (action, args, dst)) that together traverse every edge of the
    graph, self-loops included."""
    todo = {n: set(range(len(es))) for n, es in g.out.items() if es}
    left = sum(len(s) for s in todo.values())
    behs = []
    while left:
        cur = rng.choice(g.init)
        path = []
        progress = False
        while len(path) < seglen and left:
            if todo.get(cur):
                i = rng.choice(sorted(todo[cur]))
                todo[cur].discard(i)
                left -= 1
                progress = True
                e = g.out[cur][i]
                path.append(e)
                cur = e[2]
                continue
            # BFS to the nearest state that still has an untraversed edge
            prev, queue, goal = {cur: None}, [cur], None
            while queue and goal is None:
                nxt = []
                for n in queue:
                    for e in g.out.get(n, ()):
                        if e[2] not in prev:
                            prev[e[2]] = (n, e)
                            if todo.get(e[2]):
                                goal = e[2]
                                break
                            nxt.append(e[2])
                    if goal is not None:
                        break
                queue = nxt
            if goal is None:
                break
            hop = []
            while prev[goal] is not None:
                n, e = prev[goal]
                hop.append(e)
                goal = n
            hop.reverse()
            path.extend(hop)
            cur = path[-1][2]
        if path:
            behs.append(path)
        if not progress:
            raise core.MachineryError("edge cover: untraversed edges are unreachable from the initial states")
    return behs


def steps_of_path(g, path):
    """(action, args, dst) edges of a dumped Errno graph -> lock-step steps."""
    steps = []
    for act, args, dst in path:
        t = args[0]
        o = g.states[dst]["obs"][t - 1]
        pred = o[0] if len(o) else None
        arg = args[1] if len(args) > 1 else None
        steps.append((act, t, arg, pred if act in ("Get", "CallEnter", "CbExit") else None))
    return steps


def steps_of_history(h):
    """history printed by ErrnoSim -> (real0, steps)"""
    real0 = {i + 1: v for i, v in enumerate(h[0][1])}
    steps = []
    for x in h[1:]:
        act, t = x[0], x[1]
        if act in ("Set", "Clobber", "CSet"):
            steps.append((act, t, x[2], None))
        elif act == "CallEnter":
            steps.append((act, t, x[2], x[3]))
        elif act == "CbEnter":
            steps.append((act, t, x[2], None))
        elif act in ("Get", "CbExit"):
            steps.append((act, t, None, x[2]))
        else:
            steps.append((act, t, None, None))
    return real0, steps


def make_valmap(rng, vals):
    m = {0: 0}
    used = {0}
    for v in vals:
        if v == 0:
            continue
        while True:
            x = rng.choice([rng.randrange(1, 200), rng.randrange(INT_MIN, INT_MAX + 1), INT_MAX, INT_MIN, -1])
            if x not in used:
                break
        used.add(x)
        m[v] = x
    return m


# ------------------------------------------------------------------------------ free-running stress

def rand_errno(r, tid, n):
    x = r.random()
    if x < 0.5:
        return r.randrange(INT_MIN, INT_MAX + 1)
    if x < 0.8:
        return tid * 100000 + n
    return r.choice([0, 1, -1, 4, 11, INT_MAX, INT_MIN])


def gen_py_ops(r, tid, n, depth, fam, cnt):
    ops = []
    for _ in range(n):
        x = r.random()
        cnt[0] += 1
        if x < 0.25:
            ops.append(("Set", rand_errno(r, tid, cnt[0])))
        elif x < 0.5:
            ops.append(("Get",))
        elif x < 0.6:
            ops.append(("Clobber", rand_errno(r, tid, cnt[0])))
        elif depth > 0:
            ops.append(("Call", r.choice(T.PATHS_OF[fam]), gen_c_ops(r, tid, r.randrange(0, 5), depth, fam, cnt)))
    return ops


def gen_c_ops(r, tid, n, depth, fam, cnt):
    ops = []
    for _ in range(n):
        x = r.random()
        cnt[0] += 1
        if x < 0.4:
            ops.append(("SET", rand_errno(r, tid, cnt[0])))
        elif x < 0.6:
            ops.append(("YIELD", r.randrange(1, 4)))
        else:
            ops.append(("CB", r.choice(T.KINDS_OF[fam]),
                        gen_py_ops(r, tid, r.randrange(0, 4), depth - 1, fam, cnt), r.randrange(-5, 1000)))
    return ops


class Stress:
    """n free-running threads (the last `nraw` of them not created by Python), each executing
    its own random program; returns one trace (concatenation of the per-thread event lists)."""

    def __init__(self, env, seed, nthreads, nraw, nops, depth):
        import random
        self.env, self.h = env, env.h
        self.threads = list(range(1, nthreads + 1))
        self.raw = set(self.threads[nthreads - nraw:])
        self.slot = {t: t - 1 for t in self.threads}
        self.rnd = {t: random.Random("%s-%d" % (seed, t)) for t in self.threads}
        self.fam = {t: self.rnd[t].choice(["api", "dl", "mixed"]) for t in self.threads}
        self.events = {t: [] for t in self.threads}
        self.sess = {t: [] for t in self.threads}
        self.errors = []
        self.keep = []
        self.plan = {}
        for t in self.threads:
            cnt = [0]
            if t in self.raw:
                self.plan[t] = gen_c_ops(self.rnd[t], t, nops, depth, self.fam[t], cnt)
            else:
                self.plan[t] = gen_py_ops(self.rnd[t], t, nops, depth, self.fam[t], cnt)
        self.sub = 0

    def ffi(self, t):
        return self.env.ffi_for(self.fam[t], self.rnd[t])

    def exec_py(self, t, ops):
        h, evs = self.h, self.events[t]
        for op in ops:
            if op[0] == "Set":
                self.ffi(t).errno = op[1]
                evs.append(ev("Set", t, op[1]))
            elif op[0] == "Get":
                evs.append(ev("Get", t, self.ffi(t).errno))
            elif op[0] == "Clobber":
                h.cv_raw_set_errno(op[1])
                if op[1] & 1:
                    try:
                        os.stat("/nonexistent/cv22")
                    except OSError:
                        pass
                evs.append(ev("Clobber", t, op[1]))
            else:
                self.exec_call(t, op[1], op[2])

    def start_session(self, t, cops):
        flat, ncb = [], 0
        for c in cops:
            if c[0] == "SET":
                flat += [T.C_SET, c[1]]
            elif c[0] == "YIELD":
                flat += [T.C_YIELD, c[1]]
            else:
                flat += [T.C_CB, T.KINDS.index(c[1])]
                ncb += 1
        prog = (ctypes.c_int * max(1, len(flat)))(*flat)
        obs = (ctypes.c_int * (1 + 2 * ncb))()
        sess = {"cops": cops, "pos": 0, "cbexit": [], "prog": prog, "obs": obs}
        self.sess[t].append(sess)
        self.h.cv_prepare(self.slot[t], prog, len(flat), obs)
        return sess

    def end_session(self, t, sess):
        evs = self.events[t]
        self.sess[t].pop()
        while sess["pos"] < len(sess["cops"]):
            c = sess["cops"][sess["pos"]]
            sess["pos"] += 1
            if c[0] == "SET":
                evs.append(ev("CSet", t, c[1]))
            elif c[0] == "CB":
                raise core.MachineryError("stress: a planned callback was not invoked")
        for j, (pl, rv) in enumerate(sess["cbexit"]):
            pl["v"] = sess["obs"][1 + 2 * j]
            if sess["obs"][2 + 2 * j] != rv:
                raise core.MachineryError("stress: callback result %r arrived as %r" % (rv, sess["obs"][2 + 2 * j]))

    def exec_call(self, t, path, cops):
        evs = self.events[t]
        sess = self.start_session(t, cops)
        enter = ev("CallEnter", t, None, path)
        evs.append(enter)
        self.sub += 1
        self.env.call(path, self.slot[t], self.sub)
        enter["v"] = sess["obs"][0]
        self.end_session(t, sess)
        evs.append(ev("CallExit", t))

    def on_callback(self, t, kind, x):
        try:
            evs = self.events[t]
            sess = self.sess[t][-1]
            while True:
                c = sess["cops"][sess["pos"]]
                sess["pos"] += 1
                if c[0] == "SET":
                    evs.append(ev("CSet", t, c[1]))
                elif c[0] == "CB":
                    break
            if c[1] != kind:
                raise core.MachineryError("stress: callback kind %r, planned %r" % (kind, c[1]))
            evs.append(ev("CbEnter", t, 0, kind))
            self.exec_py(t, c[2])
            pl = ev("CbExit", t, None)
            evs.append(pl)
            sess["cbexit"].append((pl, c[3]))
            return c[3]
        except BaseException as e:      # noqa
            self.errors.append((t, repr(e)))
            return -97

    def run(self):
        h, env = self.h, self.env
        barrier = threading.Barrier(len(self.threads) - len(self.raw) + 1)

        def body(t):
            try:
                env.bind(self.slot[t], lambda kind, x, t=t: self.on_callback(t, kind, x), self.fam[t])
                barrier.wait(60)
                self.exec_py(t, self.plan[t])
            except BaseException as e:      # noqa
                self.errors.append((t, repr(e)))
        ths = []
        for t in self.threads:
            h.cv_reset(self.slot[t])
            if t not in self.raw:
                th = threading.Thread(target=body, args=(t,), daemon=True)
                ths.append(th)
                th.start()
        barrier.wait(60)
        rawsess = {}
        for t in sorted(self.raw):
            env.bind(self.slot[t], lambda kind, x, t=t: self.on_callback(t, kind, x), self.fam[t], this_thread=False)
            init = rand_errno(self.rnd[t], t, 0)
            self.events[t].append(ev("CSet", t, init))
            rawsess[t] = (self.start_session(t, self.plan[t]), init)
            if h.cv_spawn_raw(self.slot[t], init) != 0:
                raise core.MachineryError("pthread_create failed")
        for t, (sess, init) in rawsess.items():
            if h.cv_wait_done(self.slot[t], T.TIMEOUT) != 0:
                raise core.MachineryError("stress: raw thread %d did not finish (%r)" % (t, self.errors))
            if sess["obs"][0] != init:
                raise core.MachineryError("raw thread: own errno reads back differently")
            self.end_session(t, sess)
        for th in ths:
            th.join(T.TIMEOUT)
            if th.is_alive():
                raise core.MachineryError("stress: a thread did not finish (%r)" % (self.errors,))
        if self.errors:
            raise core.MachineryError("stress worker failed: %r" % (self.errors,))
        evs = []
        for t in self.threads:
            evs += self.events[t]
        return {"raw": sorted(self.raw), "evs": evs}


# ------------------------------------------------------------------------------ validation

def validate(ctx, traces, name="Trace_Errno"):
    """TLC decides every trace against ErrnoIdeal; returns [(index, clause, position)]."""
    bad = []
    for base in range(0, len(traces), 1500):
        chunk = traces[base:base + 1500]
        tups = core.tlc_verdicts(ctx, "Trace_Errno", chunk, name=name, timeout=1800, extra_env=JLIGHT)
        verdicts = {int(x[0]): (core.unq(x[1]), int(x[2])) for x in tups}
        if len(verdicts) != len(chunk):
            raise core.MachineryError("trace validation incomplete: %d verdicts for %d traces" % (
                len(verdicts), len(chunk)))
        for k in range(1, len(chunk) + 1):
            v, pos = verdicts[k]
            if v.startswith("ctx:"):
                raise core.MachineryError("recorded trace %d is not a well-formed history (%s at %d)" % (
                    base + k - 1, v, pos))
            ctx.validated()
            if v != "ok":
                bad.append((base + k - 1, v, pos))
    return bad


def report(ctx, traces, metas, bad):
    for k, v, pos in bad:
        x = traces[k]["evs"][pos - 1]
        # the call path / callback kind in which the failing observation was made
        site = x["p"]
        if not site:
            depth, site = 0, "top"
            for y in traces[k]["evs"][:pos - 1]:
                if y["t"] != x["t"]:
                    continue
                if y["ev"] in ("CallEnter", "CbEnter", "EmbEnter"):
                    depth += 1
                elif y["ev"] in ("CallExit", "CbExit"):
                    depth -= 1
            if x["ev"] == "CbExit" or depth > 0:
                stack = []
                for y in traces[k]["evs"][:pos - 1]:
                    if y["t"] != x["t"]:
                        continue
                    if y["ev"] in ("CallEnter", "CbEnter", "EmbEnter"):
                        stack.append(y["p"])
                    elif y["ev"] in ("CallExit", "CbExit"):
                        stack.pop()
                site = stack[-1] if stack else ("raw" if x["t"] in traces[k]["raw"] else "top")
        # inside a call into an embedded module: name how that call got to Python (emb1 | embw | emb)
        emb = [y["p"] for y in traces[k]["evs"][:pos - 1] if y["t"] == x["t"] and y["ev"] == "EmbEnter"]
        if emb and site != emb[-1] and metas[k]["kind"] == "embed":
            site = "%s@%s" % (site, emb[-1])
        ctx.violation("%s:%s:%s" % (metas[k]["kind"], v, site), CLAUSE.get(v, v),
                      {"meta": metas[k], "trace": traces[k], "failing_event_index": pos, "failing_event": x})


# ------------------------------------------------------------------------------ the check

def design_jobs(ctx):
    """(name, module, cfg text, kwargs, kind) for every design-level TLC run; kind is 'good'
    (must pass; states are counted), 'cov' (good + every action must have been taken) or
    'bad' (a deliberately broken variant: TLC must report a violated property)."""
    NI = ("RefinesIdeal", "NonInterference")
    jobs = [
        ("MC_Errno(3thr,vals2,api,cbk,len2)", cfg([1, 2, 3], [], [0, 1], ["api"], ["cbk"], 2), "cov"),
        ("MC_Errno(1thr,vals3,4paths,2kinds,len4)", cfg([1], [], [0, 1, 2], T.PATHS, T.KINDS, 4), "good"),
        ("MC_Errno(2thr,1raw,vals2,api+glob,2kinds,len3)",
         cfg([1, 2], [2], [0, 1], ["api", "glob"], T.KINDS, 3, props=NI), "good"),
    ]
    # C threads entering through the dll-exported function of an embedded module (start-up included)
    jobs.append(("MC_Errno(2thr,both raw+emb,vals2,api,cbk,len3)",
                 cfg([1, 2], [1, 2], [0, 1], ["api"], ["cbk"], 3, props=NI, emb=[1, 2]), "covemb"))
    if not ctx.quick:
        jobs += [
            ("MC_Errno(3thr raw+emb,vals2,api,cbk,len3)",
             cfg([1, 2, 3], [1, 2, 3], [0, 1], ["api"], ["cbk"], 3, props=NI, emb=[1, 2, 3]), "good"),
            ("MC_Errno(3thr,vals3,api+glob,cbk,len2)",
             cfg([1, 2, 3], [], [0, 1, 2], ["api", "glob"], ["cbk"], 2, props=NI), "good"),
            ("MC_Errno(2thr,vals2,4paths,2kinds,len3)", cfg([1, 2], [], [0, 1], T.PATHS, T.KINDS, 3), "good"),
        ]
    for v in VARIANTS:
        # the single shared saved errno must violate the thread-locality clause itself
        props = ("NonInterference",) if v == "shared" else ("RefinesIdeal",)
        if v.startswith("emb"):
            text = cfg([1, 2], [1, 2], [0, 1], ["api"], ["cbk"], 2, variant=v, props=props, emb=[1, 2])
        else:
            text = cfg([1, 2], [], [0, 1], ["api", "glob"], ["cbk"], 2, variant=v, props=props)
        jobs.append(("sanity:" + v, text, "bad"))
    return jobs


def account_design(ctx, name, kind, r):
    if kind in ("good", "cov", "covemb"):
        ctx.add_tlc(name, r)
        if kind != "good":
            c = r.coverage()
            missing = [a for a in ACTIONS + (EMB_ACTIONS if kind == "covemb" else ()) if c.get(a, (0, 0))[1] == 0]
            if missing:
                raise core.MachineryError("vacuous model: actions never taken: %r" % (missing,))
    else:
        ctx.add_tlc(name, r, require_ok=False, count_states=False)
        if r.ok or "is violated" not in r.out:
            raise core.MachineryError("broken variant %s of the model was not rejected by TLC:\n%s" % (
                name, r.out[-1500:]))


def graph_cfg(quick):
    if quick:
        return ([1, 2], [0, 1], ["api", "dl"], ["cbk"], 2, 300, "2thr_api+dl_cbk_len2")
    return ([1, 2], [0, 1], list(T.PATHS), list(T.KINDS), 2, 400, "2thr_4paths_2kinds_len2")


def sim_cfgs(ctx):
    n = 70 if ctx.quick else 1000
    length = 40 if ctx.quick else 60
    confs = [([1, 2], []), ([1, 2, 3], [3]), ([1, 2, 3, 4], [4])]
    if not ctx.quick:
        confs.append(([1, 2, 3, 4], []))
    return [(threads, raw, n, length, ctx.seed * 101 + i) for i, (threads, raw) in enumerate(confs)]


def emb_plans(seed, n):
    import random
    r = random.Random("emb-%s" % seed)
    return [E.gen_plan(r) for _ in range(n)]


def account_embed(ctx, plans, res, traces, metas):
    modes = {}
    for i, (plan, (tr, md)) in enumerate(zip(plans, res)):
        traces.append(tr)
        metas.append({"kind": "embed", "plan": plan, "modes": md})
        ctx.case(("embed", json.dumps(plan, sort_keys=True)))
        for m in md.values():
            modes[m] = modes.get(m, 0) + 1
    if res:
        ctx.cov["embedded_entry_calls_by_mode"] = modes
        if not modes.get("emb1") or not modes.get("emb"):
            raise core.MachineryError("embedded entry path: modes exercised %r" % (modes,))
        ctx.sample({"kind": "C threads calling the exported function of a real embedded module in a fresh process",
                    "plan": plans[-1], "modes": res[-1][1], "events": res[-1][0]["evs"][:30]}, limit=1)


def printed_tuples(out, head):
    """PrintT'ed tuples <<head, ...>> (TLC pretty-prints long ones over several lines)."""
    import re
    res = []
    for m in re.finditer(r'<<\s*"%s"' % head, out):
        depth, k = 0, m.start()
        while k < len(out):
            if out.startswith("<<", k):
                depth += 1
                k += 2
                continue
            if out.startswith(">>", k):
                depth -= 1
                k += 2
                if depth == 0:
                    break
                continue
            k += 1
        res.append(tlaval.parse_value(out[m.start():k]))
    return res


def run(ctx):
    quick = ctx.quick
    rng = ctx.rng
    # ---- all TLC work that does not depend on the implementation is started at once
    pool = concurrent.futures.ThreadPoolExecutor(6 if quick else 5)
    w = 2 if quick else 4
    djobs = design_jobs(ctx)
    dfut = [pool.submit(core.tlc, "Errno", cfg_text=text, workers=(1 if kind == "bad" else w), coverage=kind.startswith("cov"),
                        timeout=900 if quick else 3000, env=JLIGHT if (quick or kind == "bad") else JHEAVY) for name, text, kind in djobs]
    gconf = graph_cfg(quick)
    dump = os.path.join(ctx.tmp, "g_" + gconf[6])
    gfut = pool.submit(core.tlc, "Errno", cfg_text=cfg(gconf[0], [], gconf[1], gconf[2], gconf[3], gconf[4], props=()),
                       dump=dump, workers=2, timeout=1200, env=JLIGHT)
    sconfs = sim_cfgs(ctx)
    sfut = []
    for threads, raw, n, length, seed in sconfs:
        text = cfg(threads, raw, [0, 1, 2], T.PATHS, T.KINDS, 4, props=(), spec="SimSpec",
                   extra="  N = %d\nCONSTRAINT Emit\n" % length)
        sfut.append(pool.submit(core.tlc, "ErrnoSim", cfg_text=text, workers=1, simulate="num=%d" % n,
                                depth=length + 5, seed=seed, timeout=900, env=JLIGHT))
    # ---- (c) the embedding entry path: fresh processes, runs while everything else works
    eplans = emb_plans(ctx.seed, 14 if quick else 300)
    epool = concurrent.futures.ThreadPoolExecutor(1)
    efut = epool.submit(E.run_all, ctx.tmp, eplans, 3 if quick else 6)
    env = T.Env(ctx.tmp)
    traces, metas, divergences = [], [], []

    def do_replay(kind, steps, threads, raw, real0, vals, extra):
        valmap = make_valmap(rng, vals)
        tr, div = lockstep_replay(env, rng, steps, threads, raw, real0, valmap)
        traces.append(tr)
        metas.append(dict(kind=kind, threads=threads, raw=sorted(raw), real0={str(k): v for k, v in real0.items()},
                          vals=vals, steps=[list(s) for s in steps], **extra))
        ctx.case((kind, tuple(steps), tuple(sorted(raw))))
        divergences.extend(div)

    # ---- (b) free-running stress (needs no TLC output: runs while TLC works)
    old = sys.getswitchinterval()
    sys.setswitchinterval(2e-5)
    try:
        nstress = 60 if quick else 800
        for i in range(nstress):
            nthreads = 2 + i % 3
            st = Stress(env, "%d-%d" % (ctx.seed, i), nthreads, 1 if i % 4 == 3 else 0, 12 if quick else 25, 3)
            traces.append(st.run())
            metas.append({"kind": "stress", "seed": "%d-%d" % (ctx.seed, i), "threads": nthreads,
                          "nraw": 1 if i % 4 == 3 else 0, "nops": 12 if quick else 25, "depth": 3,
                          "families": {str(t): f for t, f in st.fam.items()}})
            ctx.case(("stress", i))
    finally:
        sys.setswitchinterval(old)
    ctx.sample({"kind": "free-running stress run", "meta": metas[-1], "events": traces[-1]["evs"][:30]}, limit=1)
    # ---- (a1) every edge of a complete two-thread graph
    r = gfut.result()
    ctx.add_tlc("dump(%s)" % gconf[6], r, count_states=False)
    g = tlaval.load_dot(dump + ".dot")
    if len(g.states) != r.distinct:
        raise core.MachineryError("dumped graph has %d states, TLC reported %d" % (len(g.states), r.distinct))
    behs = edge_cover(g, rng, gconf[5])
    for b in behs:
        do_replay("graph", steps_of_path(g, b), gconf[0], set(), {t: 0 for t in gconf[0]}, gconf[1],
                  {"graph": gconf[6]})
    ctx.cov["graph_edges_replayed"] = sum(len(es) for es in g.out.values())
    ctx.cov["graph_states"] = len(g.states)
    ctx.sample({"kind": "segment of the edge cover of TLC's complete graph, replayed in lock-step",
                "steps": metas[-1]["steps"][:25], "events": traces[-1]["evs"][:25]}, limit=2)
    # ---- (a2) simulated behaviours, 2-4 threads, all paths, nesting, one thread possibly raw
    for (threads, raw, n, length, seed), f in zip(sconfs, sfut):
        r = f.result()
        ctx.add_tlc("simulate(%dthr,%draw,%d behaviours of %d steps)" % (len(threads), len(raw), n, length), r,
                    require_ok=False, count_states=False)
        hs = [x[1] for x in printed_tuples(r.out, "BEH")]
        if len(hs) < n:
            raise core.MachineryError("TLC simulation printed %d behaviours instead of %d:\n%s" % (
                len(hs), n, r.out[-1500:]))
        for h in hs[:n]:
            real0, steps = steps_of_history(h)
            do_replay("sim", steps, threads, set(raw), real0, [0, 1, 2], {})
        ctx.sample({"kind": "TLC-simulated behaviour replayed in lock-step on %d real threads (raw: %r)"
                            % (len(threads), sorted(raw)),
                    "steps": metas[-1]["steps"][:30], "events": traces[-1]["evs"][:30]}, limit=5)
    # ---- the same against the backend built without __thread (thorough tier)
    if not quick:
        hs = [m for m in metas if m["kind"] == "sim"][:400]
        res = alt_build_run(ctx, [{"threads": m["threads"], "raw": m["raw"], "real0": m["real0"],
                                   "steps": m["steps"]} for m in hs], 200)
        traces += res["traces"]
        metas += res["metas"]
        divergences += res["divergences"]
        for m in res["metas"]:
            ctx.case(("nothread", m.get("seed") or json.dumps(m["steps"])))
        ctx.cov["nothread_build_traces"] = len(res["traces"])
    # ---- (c) collected
    eres, skipped = efut.result()
    epool.shutdown()
    if skipped:
        print("NOTE C22: " + skipped)
        ctx.assumptions.append(skipped)
    account_embed(ctx, eplans, eres, traces, metas)
    # ---- verdicts
    bad = validate(ctx, traces)
    report(ctx, traces, metas, bad)
    for (name, text, kind), f in zip(djobs, dfut):
        account_design(ctx, name, kind, f.result())
    pool.shutdown()
    ctx.cov["events_validated"] = sum(len(t["evs"]) for t in traces)
    ctx.cov["model_divergences"] = divergences[:10]
    ctx.cov["model_divergence_count"] = len(divergences)
    if divergences:
        print("NOTE C22: %d lock-step observations differ from the implementation model (first: %s); "
              "verdicts come from the ideal" % (len(divergences), divergences[0]))
    ctx.cov["rule"] = ("distinct = distinct lock-step behaviours (action sequence x thread set) + stress runs; "
                       "all involve >= 2 real threads and at least one crossing of the cffi boundary")
    ctx.cov["exhaustive"] = True      # every edge of the dumped two-thread graph was replayed
    ctx.assumptions += [
        "the C helper reads/assigns errno itself; ctypes plumbing (no use_errno) never touches cffi's saved errno",
        "glibc errno is per-thread; the harness's semaphore waits save/restore the errno value they track",
        "the errno of a thread before its first assignment/observation is left unconstrained by the ideal",
        "embedded entry: the mode label of a call (emb1 = ran the start-up, embw = began before the init code "
        "had finished, emb = later) is bound from observation (thread ident of the init code, CLOCK_MONOTONIC); "
        "the ideal treats all modes alike",
    ]


# ------------------------------------------------------------------------------ second build of the backend
# The backend keeps the saved errno either in a `__thread` variable (USE__THREAD, what setup.py
# selects with gcc) or in the per-thread struct cffi_tls_s reached through pthread_getspecific
# (misc_thread_common.h:298-311).  The thorough tier also runs stress runs and simulated behaviours
# against a backend rebuilt from the working tree with -UUSE__THREAD, in a sub-process.

def alt_build_run(ctx, histories, nstress):
    d = core.build_backend(extra_flags=("-UUSE__THREAD",), tag="nothread")
    work = os.path.join(ctx.tmp, "nothread")
    os.makedirs(work, exist_ok=True)
    inp, out = os.path.join(work, "in.json"), os.path.join(work, "out.json")
    core.write_json(inp, {"histories": histories, "nstress": nstress, "seed": ctx.seed, "work": work})
    env = dict(os.environ)
    env["PYTHONPATH"] = os.pathsep.join([d, os.path.join(core.REPO, "src"), core.VERIF])
    code = "from props import c22; c22.child_main(%r, %r, %r)" % (d, inp, out)
    r = subprocess.run([core.PY, "-c", code], cwd=core.VERIF, env=env, capture_output=True, text=True, timeout=1800)
    if r.returncode != 0 or not os.path.exists(out):
        raise core.MachineryError("run against the -UUSE__THREAD backend failed (rc=%s):\n%s" % (
            r.returncode, r.stderr[-3000:]))
    with open(out) as f:
        return json.load(f)


def child_main(backend_dir, inp, out):
    import random, _cffi_backend
    if not os.path.abspath(_cffi_backend.__file__).startswith(backend_dir):
        raise SystemExit("wrong backend imported: %s" % _cffi_backend.__file__)
    with open(inp) as f:
        job = json.load(f)
    env = T.Env(job["work"], tag="cv22n")
    rng = random.Random("nothread-%s" % job["seed"])
    traces, metas, divs = [], [], []
    for h in job["histories"]:
        threads, raw, real0, steps = h["threads"], set(h["raw"]), {int(k): v for k, v in h["real0"].items()}, \
            [tuple(s) for s in h["steps"]]
        tr, div = lockstep_replay(env, rng, steps, threads, raw, real0, make_valmap(rng, [0, 1, 2]))
        traces.append(tr)
        metas.append({"kind": "nothread-sim", "threads": threads, "raw": sorted(raw), "real0": h["real0"],
                      "vals": [0, 1, 2], "steps": h["steps"]})
        divs += div
    sys.setswitchinterval(2e-5)
    for i in range(job["nstress"]):
        seed = "n%s-%d" % (job["seed"], i)
        st = Stress(env, seed, 2 + i % 3, 1 if i % 4 == 3 else 0, 25, 3)
        traces.append(st.run())
        metas.append({"kind": "nothread-stress", "seed": seed, "threads": 2 + i % 3, "nraw": 1 if i % 4 == 3 else 0,
                      "nops": 25, "depth": 3})
    core.write_json(out, {"traces": traces, "metas": metas, "divergences": divs})


def replay(ctx, obj):
    """Re-executes the stored case on the current tree (a lock-step behaviour step by step, a
    stress run from its seed) and validates the new trace; the recorded trace is re-validated for
    information."""
    rp = obj["replay"]
    ctx.cov["states"] = ctx.cov["transitions"] = 1
    meta = rp["meta"]
    env = None if meta.get("kind") == "embed" else T.Env(ctx.tmp)
    if meta.get("kind") == "embed":
        res, skipped = E.run_all(ctx.tmp, [meta["plan"]], 1)
        if skipped:
            raise core.MachineryError(skipped)
        tr = res[0][0]
    elif meta.get("steps"):
        steps = [tuple(s) for s in meta["steps"]]
        real0 = {int(k): v for k, v in meta["real0"].items()}
        tr, div = lockstep_replay(env, ctx.rng, steps, meta["threads"], set(meta["raw"]), real0,
                                  make_valmap(ctx.rng, meta["vals"]))
    else:
        tr = Stress(env, meta["seed"], meta["threads"], meta.get("nraw", 0), meta.get("nops", 12),
                    meta.get("depth", 3)).run()
    traces, metas = [tr, rp["trace"]], [meta, meta]
    bad = validate(ctx, traces)
    report(ctx, traces[:1], metas[:1], [b for b in bad if b[0] == 0])
    print("replayed: re-execution on the current tree %s; the recorded trace is %s" % (
        "REJECTED by the ideal" if any(k == 0 for k, _, _ in bad) else "accepted",
        "rejected by the ideal" if any(k == 1 for k, _, _ in bad) else "accepted"))


def selftest(ctx):
    """(1) corrupt one recorded observation: the trace validation must reject exactly it;
    (2) flip one predicted value: the lock-step comparison must notice."""
    env = T.Env(ctx.tmp)
    st = Stress(env, "selftest", 3, 1, 15, 2)
    tr = st.run()
    ok1 = not validate(ctx, [tr])
    idx = [i for i, x in enumerate(tr["evs"]) if x["ev"] in ("Get", "CallEnter", "CbExit")]
    # pick an observation that is preceded by an assignment of the same thread
    pick = None
    for i in idx:
        if any(y["t"] == tr["evs"][i]["t"] and y["ev"] in ("Set", "CSet") for y in tr["evs"][:i]):
            pick = i
            break
    if pick is None:
        return False
    tr["evs"][pick]["v"] ^= 1
    bad = validate(ctx, [tr])
    ok2 = len(bad) == 1 and bad[0][2] == pick + 1
    steps = [("Set", 1, 1, None), ("Set", 2, 2, None), ("CallEnter", 1, "api", 2), ("CallExit", 1, None, None),
             ("Get", 2, None, 2)]
    tr2, div = lockstep_replay(env, ctx.rng, steps, [1, 2], set(), {1: 0, 2: 0}, {0: 0, 1: 71, 2: 72})
    ok3 = len(div) == 1 and "step 2" in div[0] and not validate(ctx, [tr2])
    # (3) the embedding entry path: a recorded run is accepted; the errno seen inside the first,
    # initialising call (resp. by its C caller afterwards) flipped -> rejected at exactly that event
    ok4 = True
    res, skipped = E.run_all(ctx.tmp, emb_plans("selftest", 6), 3)
    if not skipped:
        etr = [tr for tr, _ in res]
        ok4 = not validate(ctx, etr)
        for tr in etr:
            i = next(i for i, x in enumerate(tr["evs"]) if x["ev"] == "EmbEnter" and x["p"] == "emb1")
            j = next(j for j in range(i + 1, len(tr["evs"])) if tr["evs"][j]["t"] == tr["evs"][i]["t"]
                     and tr["evs"][j]["ev"] in ("Get", "CallEnter", "CbExit", "Set"))
            if tr["evs"][j]["ev"] == "Set":
                continue
            tr["evs"][j]["v"] ^= 1
            b = validate(ctx, [tr])
            ok4 = ok4 and len(b) == 1 and b[0][2] == j + 1
    return ok1 and ok2 and ok3 and ok4


META = {
    "category": "model_checking",
    "text": "TLC checks that a model of cffi's errno handling transcribed from the C sources (real errno vs the "
            "__thread saved copy, restore/save around API wrappers, libffi calls and global-variable address "
            "fetches, save/restore around ffi.callback and extern \"Python\" callbacks, get/set) refines the "
            "property machine (one errno register per thread seen from C and from ffi.errno) for every "
            "interleaving of 3 threads, and rejects five broken variants including a single shared saved errno "
            "(violates NonInterference); every edge of a complete 2-thread TLC graph and simulated 2-4-thread "
            "behaviours (nested calls/callbacks, one thread not created by Python) are replayed in lock-step on "
            "real threads through all call paths, free-running threads run random nested programs with 32-bit "
            "errno values, and TLC validates every recorded event trace against the property machine. The embedding "
            "entry (a C thread calls the dll-exported function of an embedded module; the first call, and calls "
            "racing with it, run the interpreter start-up between the C caller and the Python function: save "
            "errno, start, restore, forward) is an action of both machines (variant without the restore rejected) "
            "and is driven for real: an embedded module generated from the tree under test and a multi-threaded "
            "C program run random programs in fresh processes, traces validated by TLC as the others.",
    "note": "Trusted: TLC, glibc's per-thread errno, ctypes (used only for harness plumbing). Lock-step replay "
            "serialises the threads, so it exercises which thread's storage is used, not data races inside "
            "save/restore (there are none to have: both are single TLS accesses). The errno of a thread before "
            "its first assignment is not constrained. Windows (GetLastError) code is not covered.",
    "technique": "TLA+ refinement (TLC) + lock-step replay of TLC behaviours on real threads + TLC trace validation",
    "design_ref": "DESIGN.md §3 C22",
}
