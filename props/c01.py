"""C01 - ABI-mode struct/union layout equals the compiler's.

Design level : specs/Layout.tla holds the ideal GCC/x86-64 SysV layout rules (AbiLayout) and the
               field-by-field machine of b_complete_struct_or_union + finish_backend_type
               (CffiLayout).  specs/MC_Layout.tla runs both in lockstep, one member per step, over
               EVERY member sequence of bounded length from a 47-letter alphabet (plain members,
               nested/anonymous aggregates, bit-fields named/unnamed/zero-width, flexible array)
               x {struct, union} x {natural, packed, pack=2, pack=4}; one invariant per clause
               (not rejected, size, alignment, every offset / bit range).  Four deliberately
               broken variants of the machine must be rejected by TLC.
Binding      : (spec -> code) every declaration TLC enumerated up to PrintUpTo members is rendered
               as a cdef and as C; (code -> spec) random aggregates of any length, nesting depth
               <= 3, from ctx.rng.  gcc and cffi are both measured (sizeof, alignof, offsetof,
               storage bits of every bit-field - for gcc by writing all-ones into a zeroed object,
               for cffi from ffi.typeof(T).fields and additionally by writing through cffi) and
               TLC (Trace_Layout) recomputes the ideal for every record: gcc must equal it
               (else machinery error), cffi must equal it (else VIOLATION).  A difference between
               cffi and the *implementation model* only is a NOTE.
"""
import concurrent.futures, json, os, re
from harness import core, tlaval
from harness import types_gen as tg

LEVEL = "model_checking"
XSS = {"JAVA_TOOL_OPTIONS": "-Xss64m -XX:ParallelGCThreads=2 -Xms256m"}
VARIANTS = ("arm", "msvc", "fitge", "nounionreset", "firstmention")

CFG = """SPECIFICATION Spec
CONSTANTS MaxFields = %d
  PrintUpTo = %d
  Hist = %s
  Variant = "%s"
INVARIANT NotRejected
INVARIANT SizeOK
INVARIANT AlignOK
INVARIANT PlacesOK
INVARIANT IdealDisjointBits
%s
CHECK_DEADLOCK FALSE
"""


def cfg(maxf, printupto, variant="faithful", fold=False, hist=False):
    return CFG % (maxf, printupto, "TRUE" if hist else "FALSE", variant, "INVARIANT MachineIsFold" if fold else "")


def tuples(out, head):
    """PrintT'ed tuples <<"head", ...>> as parsed values (TLC pretty-prints long ones over several
    lines as `<< "head",`, which core.tla_tuples does not find)."""
    res = []
    for m in re.finditer(r'<<\s*"%s"' % head, out):
        depth, k, instr = 0, m.start(), False
        while k < len(out):
            c = out[k]
            if instr:
                instr = c != '"'
            elif c == '"':
                instr = True
            elif out.startswith("<<", k):
                depth += 1
                k += 1
            elif out.startswith(">>", k):
                depth -= 1
                k += 1
                if depth == 0:
                    break
            k += 1
        res.append(tlaval.parse_value(out[m.start():k + 1])[1:])
    return res


def decls_from_tlc(out):
    """ALPHABET and DECL tuples printed by MC_Layout -> list of nodes."""
    alpha = {}
    for pk, letters in tuples(out, "ALPHABET"):
        alpha[pk] = tg.from_tla(letters)
    nodes = []
    for kind, pack, idx, hist in tuples(out, "DECL"):
        nodes.append({"kind": kind, "pack": pack, "fields": [alpha[pack][i - 1] for i in idx]})
        if hist["form"] != "none":
            nodes[-1]["hist"] = dict(hist)
    return alpha, nodes


def describe(node):
    r = tg.render(node, "S")
    pre = "".join("[earlier cdef(pack=%d): %s] " % (p, t) for p, t in r.pre)
    return pre + tg.c_text(r.decls)


def member_sig(node, k):
    """short description of the k-th (1-based) hoisted named leaf, for violation keys"""
    leaves = []

    def rec(nd):
        for f in nd["fields"]:
            if f["bf"]:
                if f["named"]:
                    leaves.append("%s:%d" % (f["t"]["name"], f["w"]))
            elif not f["named"]:
                rec(f["t"]["node"])
            else:
                leaves.append(f["t"]["c"] if f["t"]["c"] != "prim" else f["t"]["name"])
    rec(node)
    return leaves[k - 1] if 0 < k <= len(leaves) else "-"


def measure(ctx, nodes, prefix):
    """nodes -> trace records (id, node, gcc, cffi)"""
    ids = ["%s%d" % (prefix, i) for i in range(len(nodes))]
    items = [(i, tg.render(n, "S" + i)) for i, n in zip(ids, nodes)]
    with concurrent.futures.ThreadPoolExecutor(max_workers=2) as ex:
        fg = ex.submit(tg.measure_gcc, items, ctx.tmp, 4, 500)
        c = tg.measure_cffi(list(zip(ids, nodes)), jobs=4, workdir=ctx.tmp)
        g = fg.result()
    recs = []
    for i, n in zip(ids, nodes):
        if i not in g or i not in c:
            raise core.MachineryError("measurement missing for %s" % i)
        recs.append({"id": i, "node": n, "gcc": g[i], "cffi": c[i]})
        ctx.case(json.dumps(n, sort_keys=True))
    return recs


def validate(ctx, recs, name="Trace_Layout"):
    """-> {id: [(who, clause, k)]}; raises MachineryError if a record was not reached"""
    verdicts = {}
    parts = [recs[lo:lo + 3500] for lo in range(0, len(recs), 3500)]

    def one(j):
        path = os.path.join(ctx.tmp, "layout_%d_%d.json" % (len(ctx.cov["tlc_runs"]), j))
        core.write_json(path, parts[j])
        return core.tlc("Trace_Layout", workers=4, env=dict(XSS, TRACE_FILE=path), timeout=3000)
    with concurrent.futures.ThreadPoolExecutor(max_workers=3) as ex:
        results = list(ex.map(one, range(len(parts))))
    for part, r in zip(parts, results):
        ctx.add_tlc(name, r, count_states=False)
        checked = set(core.unq(t[0]) for t in core.tla_tuples(r.out, "CHECKED"))
        if checked != set(x["id"] for x in part):
            raise core.MachineryError("trace validation incomplete: %d of %d records checked\n%s" % (
                len(checked), len(part), r.out[-1500:]))
        for t in core.tla_tuples(r.out, "VERDICT"):
            verdicts.setdefault(core.unq(t[0]), []).append((core.unq(t[1]), core.unq(t[2]), int(t[3])))
    return verdicts


CLAUSE = {"rejected": "a declaration in the class is rejected",
          "size": "ffi.sizeof differs from the compiler's sizeof",
          "align": "ffi.alignof differs from the compiler's _Alignof",
          "count": "the list of named members differs",
          "offset": "ffi.offsetof of a member differs from the compiler's offsetof",
          "bits": "a bit-field does not occupy the storage bits the compiler gives it (field metadata)",
          "written-bits": "writing a bit-field through cffi touches other bits than the compiler's"}


def judge(ctx, recs, verdicts):
    """Turn Trace_Layout verdicts into violations / notes; returns number of accepted records."""
    byid = {r["id"]: r for r in recs}
    divergences = ctx.cov.setdefault("model_divergences", [])
    for ident, vs in verdicts.items():
        rec = byid[ident]
        for who, clause, k in vs:
            if who == "class":
                raise core.MachineryError("generated declaration outside the class: %s" % describe(rec["node"]))
            if who == "gcc":
                raise core.MachineryError("%s: the platform model and gcc disagree (%s, member %d) on\n%s\ngcc=%s"
                                          % (ident, clause, k, describe(rec["node"]), rec["gcc"]))
        cffi_bad = [(c, k) for who, c, k in vs if who == "cffi"]
        for clause, k in cffi_bad[:1]:
            key = "layout:%s:%s:pack=%d:%s" % (clause, rec["node"]["kind"], rec["node"]["pack"],
                                               member_sig(rec["node"], k))
            if "hist" in rec["node"]:
                key += ":first=%s/pack=%d" % (rec["node"]["hist"]["form"], rec["node"]["hist"]["pack"])
            ctx.violation(key, "%s: %s" % (CLAUSE.get(clause, clause), describe(rec["node"])),
                          {"node": rec["node"], "gcc": rec["gcc"], "cffi": rec["cffi"], "clause": clause, "member": k})
        if not cffi_bad:
            for who, clause, k in vs:
                if who == "model" and len(divergences) < 10:
                    divergences.append({"clause": clause, "member": k, "decl": describe(rec["node"]),
                                        "cffi": rec["cffi"]})
    ctx.validated(len(recs))


def run_variants(ctx):
    """Non-vacuity: four deliberately broken variants of the machine must be rejected; plus the lemma
    that the closed form of the bit-field rule is the declarative 'first position that fits'."""
    def one(v):
        if v == "lemma":
            return v, core.tlc("MC_LayoutLemma", workers=1, timeout=900, env=XSS)
        return v, core.tlc("MC_Layout", cfg_text=cfg(1 if v == "firstmention" else 2, 0, v, hist=(v == "firstmention")),
                           workers=2, timeout=900, env=XSS)
    with concurrent.futures.ThreadPoolExecutor(max_workers=6) as ex:
        for v, r in ex.map(one, VARIANTS + ("lemma",)):
            if v == "lemma":
                ctx.add_tlc("MC_LayoutLemma(BitStart = LeastFit)", r, count_states=False)
                continue
            ctx.add_tlc("sanity:" + v, r, require_ok=False, count_states=False)
            if r.ok or not r.invariant_violated:
                raise core.MachineryError("broken variant %s of the layout machine was not rejected by TLC\n%s"
                                          % (v, r.out[-1500:]))


def stats(nodes):
    s = {"aggregates": len(nodes), "with_history": sum(1 for n in nodes if "hist" in n), "with_bitfields": 0, "unions": 0, "packed": 0, "nested": 0, "flexible": 0}
    for n in nodes:
        s["with_bitfields"] += tg.has_bitfield(n)
        s["unions"] += n["kind"] == "union"
        s["packed"] += n["pack"] > 0
        s["nested"] += sum(1 for _ in tg.walk_nodes(n)) > 1
        s["flexible"] += any(f["t"]["c"] == "flex" for f in n["fields"])
    return s


def random_nodes(ctx, n):
    rnd = []
    for _ in range(n):
        depth = ctx.rng.choice([0, 1, 1, 2, 2, 3])
        opts = {"max_fields": ctx.rng.choice([3, 5, 9, 14])}
        rnd.append(tg.random_node(ctx.rng, depth, opts=opts))
        if ctx.rng.random() < 0.3:          # declaration history: first mentioned in an earlier cdef()
            rnd[-1]["hist"] = {"form": ctx.rng.choice(["fwd", "typedef", "ptr", "realized"]),
                               "pack": ctx.rng.choice([0, 1, 2, 4])}
    # every separately declared nested aggregate is a declaration of its own, too
    extra, seen = [], set()
    for nd in rnd:
        for sub in tg.walk_nodes(nd):
            key = json.dumps(sub, sort_keys=True)
            if sub is not nd and key not in seen and len(extra) < n:
                seen.add(key)
                try:
                    tg.render(sub, "S")
                    extra.append(sub)
                except ValueError:
                    pass
    return rnd + extra


def run(ctx):
    quick = ctx.quick
    rnd = random_nodes(ctx, 300 if quick else 5000)
    # ---------------------------------------------------------------- design level
    with concurrent.futures.ThreadPoolExecutor(max_workers=3) as ex:
        fv = ex.submit(run_variants, ctx)
        frnd = ex.submit(measure, ctx, rnd, "r")             # code -> spec measurements meanwhile
        if quick:
            r = core.tlc("MC_Layout", cfg_text=cfg(2, 2, fold=True), workers=6, timeout=900, env=XSS)
            ctx.add_tlc("MC_Layout(<=2 members, 47 letters, struct/union, 4 packings)", r)
            bound = 2
        else:
            r = core.tlc("MC_Layout", cfg_text=cfg(3, 2), workers=8, timeout=3000, env=XSS)
            ctx.add_tlc("MC_Layout(<=3 members, 47 letters, struct/union, 4 packings)", r)
            r2 = core.tlc("MC_Layout", cfg_text=cfg(2, 0, fold=True), workers=2, timeout=900, env=XSS)
            ctx.add_tlc("MC_Layout(<=2 members, machine = fold)", r2, count_states=False)
            bound = 3
        # declaration histories: (first-mention packing, form) x definition packing x member sequences
        hmax = 1 if quick else 2
        fh = ex.submit(core.tlc, "MC_Layout", cfg_text=cfg(hmax, hmax, hist=True), workers=4, timeout=3000, env=XSS)
        alpha, decl_nodes = decls_from_tlc(r.out)
        rh = fh.result()
        ctx.add_tlc("MC_Layout(declaration histories: 4 forms x 4 first-mention packings, <=%d members)" % hmax, rh)
        hist_nodes = [n for n in decls_from_tlc(rh.out)[1] if "hist" in n]
        if len(hist_nodes) < 500:
            raise core.MachineryError("MC_Layout printed only %d declarations with a history" % len(hist_nodes))
        if len(alpha) != 4 or len(decl_nodes) < 1000:
            raise core.MachineryError("MC_Layout printed %d alphabets / %d declarations" % (len(alpha), len(decl_nodes)))
        # ------------------------------------------------------------ spec -> code, code -> spec
        all_decls = len(decl_nodes)
        if quick:
            # quick tier: every 1-member declaration and a seeded sample of the 2-member ones
            one = [n for n in decl_nodes if len(n["fields"]) <= 1]
            two = [n for n in decl_nodes if len(n["fields"]) > 1]
            decl_nodes = one + ctx.rng.sample(two, min(len(two), 1000))
        all_decls += len(hist_nodes)
        hist_nodes = ctx.rng.sample(hist_nodes, min(len(hist_nodes), 400 if quick else 4000))
        decl_nodes = decl_nodes + hist_nodes
        recs = measure(ctx, decl_nodes, "d")
        rrecs = frnd.result()
        fv.result()
    allrecs = recs + rrecs
    judge(ctx, allrecs, validate(ctx, allrecs, "Trace_Layout(%d TLC-enumerated declarations + %d random aggregates)"
                                 % (len(recs), len(rrecs))))
    ctx.sample({"kind": "TLC-enumerated declaration", "decl": describe(recs[-1]["node"]),
                "gcc": recs[-1]["gcc"], "cffi": {k: recs[-1]["cffi"][k] for k in ("size", "align", "places")}})
    for rec in rrecs[:3]:
        ctx.sample({"kind": "random aggregate", "decl": describe(rec["node"]), "gcc": rec["gcc"],
                    "cffi": {k: rec["cffi"][k] for k in ("size", "align", "places", "wplaces")}})
    if ctx.cov["model_divergences"]:
        print("NOTE C01: %d declarations where cffi leaves the implementation model but not the ideal (first: %s)"
              % (len(ctx.cov["model_divergences"]), ctx.cov["model_divergences"][0]))
    ctx.cov["rule"] = ("distinct = distinct declarations measured with gcc and cffi; TLC-enumerated ones cover every "
                       "member sequence of <= 2 letters of the alphabet in the class")
    # thorough: the replay covers the complete TLC graph up to 2 members; quick: all 1-member + a sample
    ctx.cov["exhaustive"] = len(decl_nodes) == all_decls
    ctx.cov["bound"] = {"MaxFields": bound, "alphabet": len(alpha[0]), "replayed_up_to_members": 2, "enumerated_declarations": all_decls, "replayed": len(decl_nodes),
                        "random_aggregates": len(rrecs)}
    ctx.cov["input_stats"] = {"enumerated": stats(decl_nodes), "random": stats(rnd)}
    ctx.assumptions += ["gcc -O0 on this machine is the platform C compiler of the property (x86-64 SysV); its answers "
                        "are validated against the specification before being used",
                        "bit-field storage of cffi is read from ffi.typeof(T).fields (offset, bitshift, bitsize) and "
                        "cross-checked by writing through cffi for widths < 64",
                        "declarations without a named member of non-zero size are outside the class "
                        "(C11 6.7.2.1p8: undefined)"]


def replay(ctx, obj):
    node = obj["replay"]["node"]
    recs = measure(ctx, [node], "p")
    v = validate(ctx, recs)
    ctx.cov["states"] = ctx.cov["transitions"] = 1
    judge(ctx, recs, v)
    print("replayed %s\n  gcc : %s\n  cffi: %s\n  verdicts: %s" % (describe(node), recs[0]["gcc"], recs[0]["cffi"],
                                                                   v.get("p0", "accepted")))


def selftest(ctx):
    """Flip one measured value in otherwise accepted records and see each rejection."""
    nodes = [tg.random_node(ctx.rng, 2) for _ in range(6)]
    recs = measure(ctx, nodes, "s")
    ok = not validate(ctx, recs)
    recs[0]["cffi"]["size"] += recs[0]["cffi"]["align"]
    recs[1]["cffi"]["places"][-1]["pos"] += 1
    recs[2]["gcc"]["align"] *= 2
    recs[3]["cffi"]["ok"] = False
    v = validate(ctx, recs)
    want = {"s0": ("cffi", "size"), "s1": ("cffi", None), "s2": ("gcc", "align"), "s3": ("cffi", "rejected")}
    for ident, (who, clause) in want.items():
        got = v.get(ident, [])
        if not any(w == who and (clause is None or c == clause) for w, c, _k in got):
            print("selftest: corruption of %s not detected (%s)" % (ident, got))
            ok = False
    if any(i not in want for i in v):
        ok = False
    ctx.cov["states"] = ctx.cov["transitions"] = 1
    return ok


META = {
    "category": "model_checking",
    "text": "TLC runs the transcribed field-by-field machine of b_complete_struct_or_union (with the flags "
            "finish_backend_type passes) in lockstep with the ideal GCC/x86-64 SysV layout rules over every member "
            "sequence of bounded length from a 47-letter alphabet (plain, nested, anonymous, bit-fields "
            "named/unnamed/zero-width, flexible array) x struct/union x natural/packed/pack=2/pack=4, one invariant "
            "per clause, and rejects four deliberately broken variants; every enumerated declaration of <= 2 members "
            "and thousands of random aggregates (depth <= 3) are then compiled by gcc and declared in cffi, and TLC "
            "recomputes the ideal layout for every record: gcc's measurements must equal it (machinery error "
            "otherwise) and cffi's sizeof/alignof/offsetof/bit ranges must equal it.",
    "note": "Trusted: gcc as the platform compiler (validated against the specification first), TLC. x86-64/GCC "
            "only; the MSVC/ARM branches are modelled (used as broken variants) but not bound to a platform. "
            "Zero-sized aggregates (no named member) are outside the class.",
    "technique": "TLA+ lockstep refinement (TLC, exhaustive in the bound) + replay of every enumerated declaration "
                 "+ TLC validation of gcc and cffi measurements on random aggregates",
    "design_ref": "DESIGN.md §3 C01",
}
