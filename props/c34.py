"""C34 - ffi.include() shares declarations instead of copying them.

Design level : specs/CdefInc.tla - chains of FFIs (each includes the previous one) over the
               declaration machine of Cdef.tla.  Ideal: object identifiers <<kind, owner, tag>>,
               owner = the FFI that declared the entity.  Implementation model of generated
               modules: _CFFI_F_EXTERNAL + _fetch_external_struct_or_union for struct/unions,
               enums and typedefs emitted again, constants found by delegation
               (ffi_fetch_int_constant).  TLC checks model identifiers = ideal identifiers for all
               chains of <= 3 FFIs x <= 2 declarations (the enum class excepted; "strict" must
               find it).
Binding      : every explored chain is rendered and built three times: in-line
               (ffi2.include(ffi1)), as out-of-line ABI modules, and (a sample) as API modules
               compiled with gcc in dependency order; identity `is` of every included typedef /
               struct / union / enum, values of constants through every FFI of the chain, layouts
               of included aggregates, and in API mode lib2.<name> for every function, variable and
               constant of lib1.  TLC (specs/Trace_CdefInc.tla) re-runs the chain on the
               specification and gives the verdict per record and mode.
"""
import contextlib, importlib, io, os, sys, time, warnings
from concurrent.futures import ProcessPoolExecutor, ThreadPoolExecutor
from harness import core, tlaval
from harness import modes_gen as mg
from harness import modes_api as ma
from props.c11 import q, tuples, NONE, Gen

LEVEL = "model_checking"

CFG = """SPECIFICATION ISpec
CONSTANTS
  TdNames = {%(td)s}
  Tags = {%(tags)s}
  EnumTags = {%(en)s}
  ConstNames = {%(k)s}
  FuncNames = {%(fn)s}
  GlobNames = {%(gv)s}
  Prims = {%(prims)s}
  Feat = {%(feat)s}
  MaxDecls = %(n)d
  MaxFFIs = %(ffis)d
  MaxPerFFI = %(per)d
  Variants = {%(variants)s}
INVARIANT IncRefines
%(extra)s
CHECK_DEADLOCK FALSE
"""


def cfg(td=("t1",), tags=("s1",), en=("e1",), k=("k1",), fn=(), gv=(), prims=("int",), feat=(),
        ffis=2, per=2, variants=("faithful",), emit=False, probe=False):
    extra = ("CONSTRAINT EmitBeh\n" if emit else "") + ("CONSTRAINT IncProbe\n" if probe else "")
    return CFG % dict(td=q(td), tags=q(tags), en=q(en), k=q(k), fn=q(fn), gv=q(gv), prims=q(prims),
                      feat=q(feat), n=ffis * per + ffis, ffis=ffis, per=per, variants=q(variants), extra=extra)


SCENARIOS = {
    # quick: two FFIs, the second using the first one's declarations
    "q_pair": dict(td=("t1",), tags=("s1",), en=(), k=(), ffis=2, per=2),
    "q_fn": dict(td=(), tags=("s1",), en=(), k=("k1",), fn=("f1",), gv=("g1",), ffis=2, per=1),
    "q_chain": dict(td=("t1",), tags=(), en=("e1",), k=("k1",), ffis=3, per=1),
    # 64-bit boundary values of constants / enumerators seen through the including FFI
    "q_bigk": dict(td=(), tags=(), en=("e1",), k=("k1",), feat=("bigconst",), ffis=2, per=1),
    # three FFIs (chains A <- B <- C and siblings C includes A and B): constants and variables of A through lib C
    "q_reach3": dict(td=(), tags=(), en=(), k=("k1",), gv=("g1",), feat=("siblings",), ffis=3, per=1),
    "sanity": dict(td=(), tags=(), en=("e1",), k=("k1",), ffis=3, per=1),
    # thorough
    "pair_en": dict(td=("t1",), tags=("s1",), en=("e1",), k=(), ffis=2, per=2),
    "chain3b": dict(td=("t1",), tags=("s1",), en=("e1",), k=(), ffis=3, per=1),
    "pair_k": dict(td=("t1",), tags=(), en=("e1",), k=("k1",), gv=("g1",), ffis=2, per=2),
}


def split(beh):
    """the declarations of every FFI and, per FFI, the (0-based) FFIs it includes, in include() order"""
    segs, incs = [[]], [[]]
    for a in beh:
        if a["a"] == "NewFFI":
            segs.append([])
            incs.append([i - 1 for i in a["inc"]])
        else:
            segs[-1].append(a)
    return segs, incs


def ancestors(incs, j):
    """FFIs reachable from j through include(), j excluded, in index order"""
    seen, todo = set(), list(incs[j])
    while todo:
        i = todo.pop()
        if i not in seen:
            seen.add(i)
            todo += incs[i]
    return sorted(seen)


def hist_to_beh(hist):
    out = []
    for h in hist:
        out.append({"a": "NewFFI", "inc": list(h[1][0])} if h[0] == "NewFFI" else mg.action(h[0], h[1]))
    return out


# --------------------------------------------------------------------------- building a chain in one mode

def own_items(segs, incs):
    """per FFI: the items declared there (not already visible through its includes)"""
    out = []
    su_of = []
    for j, seg in enumerate(segs):
        nm = mg.names_of(seg)
        visible = set()
        for i in ancestors(incs, j):
            visible.update(su_of[i])
        su = [k for k in nm.su if k not in visible]
        su_of.append(set(su))
        out.append({"td": list(nm.td), "su": su, "en": list(nm.en), "k": list(nm.k), "fn": list(nm.fn), "gv": list(nm.gv),
                    "kc": [a["n"] for a in seg if a["a"] == "DeclConst"],
                    "intgv": [a["n"] for a in seg if a["a"] == "DeclGlobal" and ma.prim_is_int(a["t"]) and a["t"][1] not in ("char", "wchar_t", "_Bool")]})
    return out


def observe_chain(F, L, segs, incs, mode):
    items = own_items(segs, incs)
    n = len(F)
    same, kk, lay, reach = {}, {}, {}, {}

    def is_same(j, i, query):
        try:
            return "same" if F[j].typeof(query) is F[i].typeof(query) else "different"
        except Exception as e:
            return "error:" + type(e).__name__

    complete = {}
    for seg in segs:
        for a in seg:
            if a["a"] == "DeclStruct":
                complete[(a["kind"], a["tag"])] = True
    # API mode first of all: every name of every included lib is asked through the *last* libs first,
    # before any intermediate lib has been touched (a lib caches what was once found through it)
    if mode == "api":
        through = {}
        for j in range(n - 1, -1, -1):
            for i in ancestors(incs, j):
                for x in items[i]["fn"] + items[i]["gv"] + items[i]["kc"]:
                    def first(x=x, i=i):
                        if x in items[i]["kc"]:
                            return ("k", getattr(L[j], x))
                        a = F[j].addressof(L[j], x)
                        return ("a", a, int(F[j].cast("uintptr_t", a)), F[j].typeof(a))
                    through[(j, i, x)] = mg.guarded(first, "str")
        for (j, i, x), got in through.items():
            kind = "fn" if x in items[i]["fn"] else "gv" if x in items[i]["gv"] else "k"

            def r(got=got, j=j, i=i, x=x, kind=kind):
                if isinstance(got, str):
                    return got                                   # "error:AttributeError" ...
                if kind == "k":
                    return "ok" if got[1] == getattr(L[i], x) else "different value"
                b = F[i].addressof(L[i], x)
                if got[2] != int(F[i].cast("uintptr_t", b)):
                    return "different address"
                if got[3] is not F[i].typeof(b):
                    return "different type object"
                if x in items[i]["intgv"]:
                    v = 17 + 3 * j + i
                    setattr(L[j], x, v)                          # written through the including lib ...
                    if getattr(L[i], x) != v:                    # ... read through the lib that defines it
                        return "write through lib[%d] not seen by lib[%d]" % (j + 1, i + 1)
                return "ok"
            reach["%d:%d:%s:%s" % (j + 1, i + 1, kind, x)] = mg.guarded(r, "str")
    for j in range(n - 1, -1, -1):
        anc = ancestors(incs, j)
        for i in anc:
            it = items[i]
            for t in it["td"]:
                same["%d:%d:td:%s" % (j + 1, i + 1, t)] = is_same(j, i, t)
            for key in it["su"]:
                if key[1].startswith("$"):
                    continue
                ks = "%s %s" % key
                same["%d:%d:su:%s" % (j + 1, i + 1, ks)] = is_same(j, i, ks)
                if complete.get(key):
                    lay["%d:%s" % (j + 1, ks)] = mg.guarded(lambda: mg.agg_obs(F[j], F[j].typeof(ks)), "rec")
            for e in it["en"]:
                same["%d:%d:en:%s" % (j + 1, i + 1, e)] = is_same(j, i, "enum " + e)
        for i in anc + [j]:
            for c in items[i]["k"]:
                def val(c=c):
                    if mode == "ool":
                        return str(int(F[j].integer_const(c)))
                    return str(int(getattr(L[j], c)))
                kk["%d:%s" % (j + 1, c)] = mg.guarded(val, "str")
    return {"same": same, "k": kk, "lay": lay, "reach": reach, "err": ""}


def build_inline(segs, incs, libpath):
    import cffi
    F, L = [], []
    for k, seg in enumerate(segs):
        f = cffi.FFI()
        for i in incs[k]:
            f.include(F[i])
        f.cdef(mg.render_cdef(seg))
        F.append(f)
        L.append(f.dlopen(libpath))
    return F, L


def build_generated(segs, incs, workdir, tag, api):
    import cffi
    builders, names = [], []
    for k, seg in enumerate(segs):
        f = cffi.FFI()
        for i in incs[k]:
            f.include(builders[i])
        f.cdef(mg.render_cdef(seg))
        name = "m_c34_%s_%d" % (tag, k)
        if api:
            prior = [a for i in ancestors(incs, k) for a in segs[i]]
            f.set_source(name, ma.render_csource(seg, prior))
            ma.build_api(core, f, name, workdir)
        else:
            f.set_source(name, None)
            f.emit_python_code(os.path.join(workdir, name + ".py"))
        builders.append(f)
        names.append(name)
    # import the last modules first (they import what they include)
    mods = {}
    for k in range(len(names) - 1, -1, -1):
        mods[k] = ma.import_from(workdir, names[k])
    F = [mods[k].ffi for k in range(len(names))]
    L = [mods[k].lib if api else None for k in range(len(names))]
    return F, L


def run_case(arg):
    idx, beh, libpath, workdir, modes = arg
    warnings.simplefilter("ignore")
    with contextlib.redirect_stdout(io.StringIO()):
        segs, incs = split(beh)
        rec = {"id": idx, "beh": beh, "obs": {}}
        for mode in modes:
            try:
                if mode == "inl":
                    F, L = build_inline(segs, incs, libpath)
                else:
                    F, L = build_generated(segs, incs, workdir, "%d_%d_%s" % (os.getpid(), idx, mode), mode == "api")
                rec["obs"][mode] = observe_chain(F, L, segs, incs, mode)
            except Exception as e:
                rec["obs"][mode] = {"same": {}, "k": {}, "lay": {}, "reach": {}, "err": "%s: %s" % (type(e).__name__, str(e)[:300])}
        return rec


def run_cases(ctx, behs_modes, libpath, jobs):
    work = os.path.join(ctx.tmp, "mods")
    os.makedirs(work, exist_ok=True)
    args = [(i + 1, b, libpath, work, m) for i, (b, m) in enumerate(behs_modes)]
    def crashed(a, exitcode):
        err = "crash: worker process died (exit code %s)" % exitcode
        return {"id": a[0], "beh": a[1],
                "obs": {m: {"same": {}, "k": {}, "lay": {}, "reach": {}, "err": err} for m in a[4]}}
    return mg.run_parallel(run_case, args, jobs, crashed)


CLAUSE = {"same": "an included typedef/struct/union/enum is not the same ctype object through the including FFI",
          "k": "an integer constant of an included FFI has a different value (or is not visible) through the including FFI",
          "lay": "the layout of an included struct/union differs from the included module's",
          "reach": "API mode: a function/variable/constant of the included lib is not reachable through the including lib",
          "build": "building / importing the chain failed"}


def validate(ctx, recs, name="Trace_CdefInc"):
    out = {}
    for i in range(0, len(recs), 800):
        chunk = recs[i:i + 800]
        path = os.path.join(ctx.tmp, "inc_trace_%d.json" % len(ctx.cov["tlc_runs"]))
        core.write_json(path, chunk)
        r = core.tlc("Trace_CdefInc", workers=1, env={"TRACE_FILE": path, "JAVA_TOOL_OPTIONS": "-Xss256m"}, timeout=1500)
        ctx.add_tlc(name, r, count_states=False)
        got = tuples(r.out, "VERDICT")
        want = sum(len(c["obs"]) for c in chunk)
        if len(got) != want:
            raise core.MachineryError("trace validation incomplete: %d verdicts for %d (record, mode) pairs\n%s" % (
                len(got), want, r.out[-3000:]))
        for t in got:
            out[(int(t[0]), core.unq(t[1]))] = (tlaval.parse_value(t[2]), tlaval.parse_value(t[3]))
    return out


def render_chain(beh):
    segs, incs = split(beh)
    return "\n".join("--- FFI %d (includes %s) ---\n%s" % (k + 1, [i + 1 for i in incs[k]] or "nothing", mg.render_cdef(sg))
                     for k, sg in enumerate(segs))


def judge(ctx, recs, verdicts, origin):
    divs, guard = [], 0
    for r in recs:
        for mode in r["obs"]:
            V, D = verdicts[(r["id"], mode)]
            ctx.validated()
            for clause, item, cls in sorted(V):
                if clause == "guard":
                    guard += 1
                    continue
                key = cls if cls else "%s:%s:unexplained" % (mode, clause)
                ctx.violation(key, "%s [%s, mode %s]" % (CLAUSE.get(clause, clause), item, mode),
                              {"origin": origin, "beh": r["beh"], "chain": render_chain(r["beh"]), "mode": mode,
                               "clause": clause, "item": item, "obs": r["obs"][mode]})
            for d in sorted(D):
                divs.append((mode,) + tuple(d) + (render_chain(r["beh"]),))
    return divs, guard


# --------------------------------------------------------------------------- random chains at real sizes

def random_chain(rng, nffi, per):
    g = Gen(rng, c_safe=True, nested=False)
    beh = []
    for k in range(nffi):
        if k:
            beh.append({"a": "NewFFI", "inc": [k]})
            g.frozen = set(g.su)
        start = len(g.beh)
        tries = 0
        while len(g.beh) - start < per and tries < 20 * per:
            g.step()
            tries += 1
        beh += g.beh[start:]
    return beh


def run(ctx):
    quick = ctx.quick
    jobs = int(os.environ.get("VERIF_JOBS", "8"))
    libpath = mg.build_pool_lib(core, ctx.tmp)
    scen = ["q_pair", "q_fn", "q_chain", "q_reach3", "q_bigk"] if quick else ["q_pair", "q_fn", "q_chain", "q_reach3", "q_bigk", "pair_en", "chain3b", "pair_k"]

    def tlc_job(name):
        r = core.tlc("CdefInc", cfg_text=cfg(emit=True, **SCENARIOS[name]), workers=1, timeout=1700)
        hs = sorted(set(t[0] for t in tuples(r.out, "BEH")))
        return name, r, [hist_to_beh(tlaval.parse_value(h)) for h in hs]

    def sanity_job():
        return core.tlc("CdefInc", cfg_text=cfg(probe=True, variants=("faithful", "strict", "one-level"), **SCENARIOS["sanity"]),
                        workers=1, timeout=900)

    chains = []
    with ThreadPoolExecutor(max(2, min(jobs, 6))) as ex:
        fs = ex.submit(sanity_job)
        fd = [ex.submit(tlc_job, s) for s in scen]
        for f in fd:
            name, r, behs = f.result()
            ctx.add_tlc("MC_CdefInc(%s)" % name, r)
            if len(behs) != r.distinct:
                raise core.MachineryError("%s: %d behaviours printed, %d states" % (name, len(behs), r.distinct))
            chains += [b for b in behs if any(a["a"] == "NewFFI" for a in b) and b[-1]["a"] != "NewFFI"]
        r = fs.result()
        ctx.add_tlc("sanity(strict: enum identity)", r, count_states=False)
        caught = {}
        for t in tuples(r.out, "CAUGHT"):
            caught.setdefault(core.unq(t[0]), t[1])
        if '"en"' not in caught.get("strict", ""):
            raise core.MachineryError("strict run does not show the enum identity divergence")
        if '"reach"' not in caught.get("one-level", ""):
            raise core.MachineryError("variant 'one-level' (included libs' own includes never searched) was not rejected by TLC")
        ctx.cov["variants_caught"] = {v: caught[v][:200] for v in caught}

    # ---------------------------------------------------------------- spec -> code
    seen, sel = set(), []
    ctx.rng.shuffle(chains)
    for b in chains:
        kk = mg.beh_key(b)
        if kk not in seen:
            seen.add(kk)
            sel.append(b)
    n_all = 160 if quick else 2000
    n_api = 12 if quick else 150
    sel = sel[:n_all]
    # API mode (gcc) for a sample; prefer chains that declare functions / variables / constants
    def api_score(b):
        # chains of three FFIs whose first FFIs define functions / variables / constants come first
        kinds = {a["a"] for a in b}
        nffi = 1 + sum(1 for a in b if a["a"] == "NewFFI")
        first = {a["a"] for a in split(b)[0][0]}
        return (-(nffi >= 3 and bool(first & {"DeclFunc", "DeclGlobal", "DeclConst"})),
                -len(kinds & {"DeclFunc", "DeclGlobal", "DeclConst", "DeclEnum", "DeclStruct"}))
    api_idx = set(sorted(range(len(sel)), key=lambda i: (api_score(sel[i]), i))[:n_api])
    work = [(b, ("inl", "ool", "api") if i in api_idx else ("inl", "ool")) for i, b in enumerate(sel)]
    nrand = 9 if quick else 100
    for i in range(nrand):
        work.append((random_chain(ctx.rng, ctx.rng.choice([2, 2, 3]), ctx.rng.randrange(2, 7)),
                     ("inl", "ool", "api") if (i % 3 == 0) else ("inl", "ool")))
    recs = run_cases(ctx, work, libpath, jobs)
    for r in recs:
        for m in r["obs"]:
            ctx.case((m, mg.beh_key(r["beh"])))
    verdicts = validate(ctx, recs)
    divs, guard = judge(ctx, recs, verdicts, "TLC chains + random chains")
    if guard > nrand:
        raise core.MachineryError("%d records were refused by the specification's guards" % guard)
    ctx.cov["guard_rejects"] = guard
    ctx.cov["modes"] = {m: sum(1 for r in recs if m in r["obs"]) for m in ("inl", "ool", "api")}
    for r in recs[:2]:
        ctx.sample({"kind": "chain of FFIs", "chain": render_chain(r["beh"]), "modes": sorted(r["obs"]),
                    "same": r["obs"]["ool"]["same"]}, limit=3)
    ctx.cov["model_divergences"] = [list(d[:4]) for d in divs[:10]]
    ctx.cov["model_divergence_count"] = len(divs)
    if divs:
        print("NOTE C34: %d identity facts of generated modules differ from the implementation model (first: %r)"
              % (len(divs), divs[0][:4]))
    ctx.cov["rule"] = ("distinct = distinct (mode, chain) pairs built and observed; every chain has >= 2 FFIs and "
                       ">= 1 included declaration")
    ctx.cov["exhaustive"] = False
    ctx.assumptions += ["linear chains (each FFI includes exactly the previous one)",
                        "an included struct is not completed by the including FFI (documented NotImplementedError)"]


def replay(ctx, obj):
    rp = obj["replay"]
    libpath = mg.build_pool_lib(core, ctx.tmp)
    os.makedirs(os.path.join(ctx.tmp, "mods"), exist_ok=True)
    rec = run_case((1, rp["beh"], libpath, os.path.join(ctx.tmp, "mods"), (rp["mode"],)))
    print(render_chain(rp["beh"]))
    v = validate(ctx, [rec])
    ctx.cov["states"] = 1
    V = v[(1, rp["mode"])][0]
    for clause, item, cls in sorted(V):
        if clause == "guard":
            print("the recorded chain is refused by the specification's guards (action %s): it says nothing about cffi" % item)
            continue
        print("mode %s clause %s item %s class %r" % (rp["mode"], clause, item, cls))
        ctx.violation(cls if cls else "%s:%s:unexplained" % (rp["mode"], clause), CLAUSE.get(clause, clause), rp)
    print("replayed: %s" % ("still violated" if [x for x in V if x[0] != "guard"] else "accepted by the specification"))


def selftest(ctx):
    libpath = mg.build_pool_lib(core, ctx.tmp)
    os.makedirs(os.path.join(ctx.tmp, "mods"), exist_ok=True)
    beh = [mg.action("DeclStruct", ("struct", "s1", (("a", ("prim", "int"), -1),))),
           mg.action("DeclConst", ("define", "k1", "7")), {"a": "NewFFI", "inc": [1]},
           mg.action("DeclTypedef", ("t1", ("ptr", ("struct", "s1"))))]
    rec = run_case((1, beh, libpath, os.path.join(ctx.tmp, "mods"), ("inl", "ool")))
    v = validate(ctx, [rec])
    ok1 = all(not v[(1, m)][0] for m in ("inl", "ool"))
    rec["obs"]["ool"]["same"]["2:1:su:struct s1"] = "different"
    rec["obs"]["inl"]["k"]["2:k1"] = "8"
    v = validate(ctx, [rec])
    ok2 = ("same", "2:1:su:struct s1", "") in v[(1, "ool")][0] and ("k", "2:k1", "") in v[(1, "inl")][0]
    return ok1 and ok2


META = {
    "category": "model_checking",
    "text": "TLC explores every chain of up to 3 FFIs with up to 2-3 declarations each, later FFIs using earlier "
            "declarations, and checks that the implementation model of generated modules (_CFFI_F_EXTERNAL + "
            "_fetch_external_struct_or_union, re-emitted typedefs and enums, constant delegation) gives every "
            "included entity the object identifier the property demands (owner = declaring FFI); every explored "
            "chain and random chains at real sizes are built in-line, as out-of-line ABI modules and (a sample) as "
            "gcc-compiled API modules, and TLC judges the recorded identity facts, constant values, layouts and "
            "lib reachability against the specification.",
    "note": "Identity is observed with `is` on ffi.typeof() results of the real FFI objects of one process. API-mode "
            "chains are a sample (gcc time). Only linear include chains.",
    "technique": "TLA+ refinement (TLC, object identifiers) + replay of TLC chains in three modes + TLC trace validation",
    "design_ref": "DESIGN.md §3 C34",
}
